#!/bin/bash
# usage: seedverify.sh <prop> <test|example> [crate] [features]   — re-verify an agent's seed inside its worktree /tmp/wt/<prop>
p=$1; kind=$2; crate=${3:-vaporetto}; feats=${4:-}
cd /tmp/wt/$p || exit 9
export CARGO_TARGET_DIR=/tmp/wt/$p/target CARGO_NET_OFFLINE=true RUST_BACKTRACE=0
F=""; [ -n "$feats" ] && F="--features $feats"
echo "suite with change: $(cargo test --workspace --offline 2>&1 | grep 'test result' | awk '{p+=$4; f+=$6} END {print p" passed "f" failed"}')"
if [ "$kind" = test ]; then
  mkdir -p $crate/tests && cp .seed/demo.rs $crate/tests/seed_demo.rs
  cargo test -p $crate $F --offline --test seed_demo -- --test-threads=1 > /tmp/sv_with.txt 2>&1; echo "demo with change exit=$?"
  git apply -R .seed/patch.diff
  cargo test -p $crate $F --offline --test seed_demo -- --test-threads=1 > /tmp/sv_without.txt 2>&1; echo "demo unchanged exit=$?"
  git apply .seed/patch.diff; rm -rf $crate/tests
else
  mkdir -p $crate/examples && cp .seed/demo.rs $crate/examples/seed_demo.rs
  cargo run --offline -q -p $crate $F --example seed_demo > /tmp/sv_with.txt 2>&1; echo "demo with change exit=$?"
  git apply -R .seed/patch.diff
  cargo run --offline -q -p $crate $F --example seed_demo > /tmp/sv_without.txt 2>&1; echo "demo unchanged exit=$?"
  git apply .seed/patch.diff; rm -rf $crate/examples
fi
