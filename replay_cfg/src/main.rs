//! Replay under a non-default feature configuration of vaporetto (C13 confirmation only).
use std::io::Read;

use serde_json::{json, Value};
use vaporetto::{CharacterBoundary, Model, Predictor, Sentence};

fn main() {
    let mut inp = String::new();
    std::io::stdin().read_to_string(&mut inp).unwrap();
    let v: Value = serde_json::from_str(&inp).unwrap();
    let bytes: Vec<u8> = v["bytes"].as_array().unwrap().iter().map(|x| x.as_u64().unwrap() as u8).collect();
    let text = v["text"].as_str().unwrap().to_string();
    let tags = v["tags"].as_bool().unwrap_or(false);
    let r = std::panic::catch_unwind(|| {
        let (model, _) = Model::read_slice(&bytes).unwrap();
        let predictor = Predictor::new(model, tags).unwrap();
        let mut s = Sentence::from_raw(text).unwrap();
        predictor.predict(&mut s);
        #[cfg(feature = "f-tag-prediction")]
        if tags {
            s.fill_tags();
        }
        let labels: Vec<u8> = s
            .boundaries()
            .iter()
            .map(|b| match b {
                CharacterBoundary::NotWordBoundary => 0,
                CharacterBoundary::WordBoundary => 1,
                CharacterBoundary::Unknown => 2,
            })
            .collect();
        json!({"scores": s.boundary_scores(), "boundaries": labels, "n_tags": s.n_tags(),
               "tags": s.tags().iter().map(|t| t.as_ref().map(|x| x.to_string())).collect::<Vec<_>>()})
    });
    match r {
        Ok(v) => println!("{}", v),
        Err(_) => println!("{}", json!({"panic": true})),
    }
}
