"""C02 — tokens are a lossless, ordered partition of the text.

spans/<widths>/<n_tags>   n characters whose UTF-8 widths follow a pattern (values symbolic inside the width
                          class), labels symbolic in {WB, NB, U}^(n-1): token spans, surfaces, tags, and the
                          tokenized writer against the partition spec.
escape/n                  n <= 3(4) characters over all classes incl. ' ', '/', '\\' : writer output is exactly
                          the escaped surfaces of the expected tokens.
"""
import z3

from values import *
from engine import b_and
import hlib
import sentlib as S
from sentlib import NWB, WB, UNK
from models.m_core import bytes_eq

ID = 'C02'
PROGRAMS = {'core': dict(crate='vaporetto', features=['train', 'kytea'])}
UNIT_CAP = 300
BUDGET_S = {'quick': 600, 'thorough': 1200}      # wall-clock safety caps (exceeding one is reported as inconclusive); typical quick runs take 1-200 s
WIDTH_PATTERNS = {'1': [1], '3': [3], '14': [1, 4], '231': [2, 3, 1], '4': [4]}
BOUNDS = {
    'quick': {'spans_chars': [1, 2, 3, 4, 5, 6], 'width_patterns': ['1', '3', '14'], 'n_tags': [0, 2], 'escape_chars': [1, 2, 3]},
    'thorough': {'spans_chars': [1, 2, 3, 4, 5, 6, 7, 8], 'width_patterns': sorted(WIDTH_PATTERNS), 'n_tags': [0, 1, 2], 'escape_chars': [1, 2, 3, 4]},
}
OUTSIDE = 'texts longer than the stated number of characters; width sequences other than the listed patterns for n > escape_chars; tag contents (fixed pattern of present/absent tags, C03 covers tag contents)'
EXPLANATION = ('Sentence::iter_tokens / TokenIterator::next / Token::{start,end,surface,tags} / write_tokenized_text are executed symbolically '
               '(MIR) on a sentence whose boundary labels are symbolic in {WB,NB,Unknown} and whose characters are symbolic inside their UTF-8 '
               'width class; on every path z3 decides that the tokens are exactly the Unknown-free word-boundary-delimited segments with their '
               'true spans/surfaces/tags and that the writer emits exactly those tokens.')
ASSUMPTIONS = ['std slice/str/iterator models of mirsym', 'sentence built through from_raw + boundaries_mut + reset_tags/tags_mut (public API)']
MUST_REACH = ['tokens equal the partition spec', 'writer emits exactly the expected tokens', 'cover:has-skipped-run']


def jobs(tier, seed):
    b = BOUNDS[tier]
    js = []
    for n in b['spans_chars']:
        for wp in b['width_patterns']:
            for nt in b['n_tags']:
                js.append({'name': 'spans/%s/%d/%d' % (wp, nt, n), 'kind': 'spans', 'n': n, 'wp': wp, 'n_tags': nt})
    for n in b['escape_chars']:
        js.append({'name': 'escape/%d' % n, 'kind': 'escape', 'n': n, 'n_tags': 1})
    js.sort(key=lambda j: -j['n'])
    return js


def width_class(t, w):
    return [z3.ULT(t, 0x80), z3.And(z3.UGE(t, 0x80), z3.ULT(t, 0x800)),
            z3.And(z3.UGE(t, 0x800), z3.ULT(t, 0x10000), z3.Or(z3.ULT(t, 0xD800), z3.UGE(t, 0xE000))),
            z3.And(z3.UGE(t, 0x10000), z3.ULT(t, 0x110000))][w - 1]


def tag_pattern(i, j):
    return (i + j) % 2 == 0


def expected_tokens(labels):
    """labels: python ints. -> list of (start, end) of Unknown-free segments"""
    n = len(labels) + 1
    out = []
    start = 0
    for i in range(n):
        if i == n - 1 or labels[i] == WB:
            seg = labels[start:i]
            if UNK not in seg:
                out.append((start, i + 1))
            start = i + 1
    return out


def esc(bs):
    out = []
    for b in bs:
        v = b.t if type(b.t) is int else None
        if v in (0x20, 0x5c, 0x2f):
            out.append(Int(0x5c, 8))
        out.append(b)
    return out


def make(e, progs, job):
    prog = progs['core']
    st = {}

    def harness(e):
        n = job['n']; nt = job['n_tags']
        if job['kind'] == 'spans':
            pat = WIDTH_PATTERNS[job['wp']]
            chars = []; cvars = []
            for i in range(n):
                t = z3.BitVec('c%d' % i, 32)
                w = pat[i % len(pat)]
                e.add(width_class(t, w)); e.add(t != 0)
                e.add(z3.And(t != 0x20, t != 0x5c, t != 0x2f))
                chars.append(Int(t, 32, False, ('char', w))); cvars.append(t)
            ss = S.SymStr(); ss.chars = chars; ss.vars = cvars
        else:
            ss = S.sym_string(e, 'c', n, ' /\\', exclude='\0')
            chars = ss.chars
        st['s'] = ss
        sv = hlib.build_str(e, chars)
        r = S.new_sentence(e, prog, 'raw', sv)
        if r.var != 'Ok':
            raise Panic('from_raw rejected a NUL-free non-empty text')
        cell = Cell(r.f[0].v)
        labels = []
        bm = S.call(e, prog, 'Sentence', 'boundaries_mut', [Ref(cell)])
        cells = bm.cells()
        for i, cl in enumerate(cells):
            t = z3.BitVec('l%d' % i, 8)
            e.add(z3.ULE(t, 2))
            cl.v = Int(t, 8)
            labels.append(cl.v)
        st['labels'] = labels
        tags = []
        if nt:
            S.call(e, prog, 'Sentence', 'reset_tags', [Ref(cell), usize(nt)])
            tm = S.call(e, prog, 'Sentence', 'tags_mut', [Ref(cell)])
            for k, cl in enumerate(tm.cells()):
                i, j = divmod(k, nt)
                if tag_pattern(i, j):
                    if job['kind'] == 'escape' and i == n - 1:
                        tc, tv = hlib.sym_char_classes(e, 'tg', ' /\\', exclude='\0')
                        st['tagchar'] = tc
                        tagv = hlib.build_str(e, [tc])
                    else:
                        tagv = mk_str('t%d' % k)
                    cl.v = some(Enum('Owned', [tagv], 'Cow')); tags.append(tagv.b)
                else:
                    cl.v = none(); tags.append(None)
        st['tags'] = tags
        o = S.observe(e, prog, cell, writers=True, tokens=True)
        # oracle (labels are determined by the path; concretise without assuming what the code looked at)
        L = [e.concretize(l) for l in labels]
        exp = expected_tokens(L)
        if len(exp) < sum(1 for x in L if x == WB) - 0 and any(L[i] == UNK for i in range(len(L))):
            # at least two consecutive skipped segments?
            segs = []; start = 0
            for i in range(n):
                if i == n - 1 or L[i] == WB:
                    segs.append(UNK in L[start:i]); start = i + 1
            if any(a and b for a, b in zip(segs, segs[1:])):
                e.cover('has-skipped-run')
        # byte offsets
        offs = [0]
        for c in chars:
            from models.m_str import char_width
            offs.append(offs[-1] + char_width(e, c))
        text = sv.b
        okk = len(o.tokens) == len(exp)
        if okk:
            for t, (s0, e0) in zip(o.tokens, exp):
                okk = b_and(okk, e.binop('Eq', t.start, usize(s0)))
                okk = b_and(okk, e.binop('Eq', t.end, usize(e0)))
                okk = b_and(okk, bytes_eq(e, t.surface, text[offs[s0]:offs[e0]]))
                if nt:
                    want = tags[(e0 - 1) * nt:e0 * nt]
                    if len(t.tags) != nt:
                        okk = False
                    else:
                        for got, w in zip(t.tags, want):
                            gb = S.opt_tag_bytes(got)
                            if (gb is None) != (w is None):
                                okk = False
                            elif gb is not None:
                                okk = b_and(okk, bytes_eq(e, gb, w))
                elif len(t.tags) != 0:
                    okk = False
        e.check(okk, 'tokens equal the partition spec')
        # writer spec
        want = []
        for k, (s0, e0) in enumerate(exp):
            if k:
                want.append(Int(0x20, 8))
            want.extend(esc(text[offs[s0]:offs[e0]]))
            if nt:
                ts = tags[(e0 - 1) * nt:e0 * nt]
                last = max([j for j, x in enumerate(ts) if x is not None] + [-1])
                for x in ts[:last + 1]:
                    want.append(Int(0x2f, 8))
                    if x is not None:
                        want.extend(esc(x))
        e.check(bytes_eq(e, o.tokenized, want), 'writer emits exactly the expected tokens')
        from models.m_str import utf8_valid
        e.check(utf8_valid(e, o.tokenized), 'written text is valid UTF-8')

    def describe(m):
        ss = st['s']
        text = ss.py(m)
        labels = [l.t if type(l.t) is int else m.eval(l.t, model_completion=True).as_long() for l in st['labels']]
        tags = []
        for tb in st.get('tags', []):
            tags.append(None if tb is None else hlib.py_bytes(None, tb, m).decode('utf-8'))
        ops = [{'op': 'sentence', 'id': 's', 'kind': 'raw', 'text': text}, {'op': 'set_boundaries', 's': 's', 'b': labels}]
        if job['n_tags']:
            ops.append({'op': 'reset_tags', 's': 's', 'n': job['n_tags']})
            ops.append({'op': 'set_tags', 's': 's', 'tags': tags})
        ops.append({'op': 'observe', 's': 's'})
        return {'property': ID, 'job': job, 'ops': ops, 'labels': labels, 'text': text, 'tags': tags}

    def sample():
        if e.solver is None or e._check() != z3.sat:
            return None
        d = describe(e.solver.model())
        return {'job': job['name'], 'text': d['text'], 'labels': d['labels']}
    e.sample = sample
    return harness, describe


def role(v):
    d = v.get('data') or {}
    labels = d.get('labels', [])
    segs = []; start = 0
    n = len(labels) + 1
    for i in range(n):
        if i == n - 1 or labels[i] == WB:
            segs.append(UNK in labels[start:i]); start = i + 1
    run = any(a and b for a, b in zip(segs, segs[1:]))
    msg = v['msg']
    if v['kind'] != 'assert' or msg.startswith('MIR assert'):
        return 'panic:%s:%s:%s' % (hlib.panic_site(v), hlib.panic_kind(msg), 'consecutive-skipped-segments' if run else 'other')
    return '%s:%s' % (msg, 'consecutive-skipped-segments' if run else 'other')


def py_escape(s):
    return ''.join(('\\' + ch) if ch in ' \\/' else ch for ch in s)


def native_violations(sc, res):
    out = []
    for op, r in zip(sc['ops'], res):
        if isinstance(r, dict) and ('panic' in r or 'crash' in r):
            return ['panic in %s' % op['op']]
    ob = res[-1]
    okf, bad = S.native_obs_ok(ob)
    if not okf:
        return ['panic in accessors: %s' % bad]
    text = sc['text']; labels = sc['labels']; tags = sc.get('tags') or []
    nt = sc['job']['n_tags']
    exp = expected_tokens(labels)
    want = []
    wt = []
    for (s0, e0) in exp:
        ts = tags[(e0 - 1) * nt:e0 * nt] if nt else []
        want.append({'start': s0, 'end': e0, 'surface': text[s0:e0], 'tags': ts})
        last = max([j for j, x in enumerate(ts) if x is not None] + [-1])
        wt.append(py_escape(text[s0:e0]) + ''.join('/' + (py_escape(x) if x is not None else '') for x in ts[:last + 1]))
    if ob['tokens'] != want:
        out.append('tokens equal the partition spec')
    if ob['tokenized'] != ' '.join(wt):
        out.append('writer emits exactly the expected tokens')
    return out


def confirm(sc, replay):
    res = replay.run(sc['ops'])
    v = native_violations(sc, res)
    return bool(v), {'native_violations': v, 'native': res[-1] if res else None}


def validate(progs, replay, seed, tier):
    import random
    from engine import Engine
    prog = progs['core']
    rnd = random.Random(seed * 31 + 2)
    runs = 0; mism = []
    e = Engine(prog)
    alphabet = ['a', 'b', 'é', 'あ', '𠀋', ' ', '/', '\\']
    for _ in range(40 if tier == 'quick' else 200):
        n = rnd.randint(1, 7)
        text = ''.join(rnd.choice(alphabet) for _ in range(n))
        labels = [rnd.choice([0, 1, 1, 2]) for _ in range(n - 1)]
        nt = rnd.choice([0, 1, 2])
        tags = [('t%d' % k if rnd.random() < 0.5 else None) for k in range(n * nt)]
        job = {'n_tags': nt}
        ops = [{'op': 'sentence', 'id': 's', 'kind': 'raw', 'text': text}, {'op': 'set_boundaries', 's': 's', 'b': labels}]
        if nt:
            ops += [{'op': 'reset_tags', 's': 's', 'n': nt}, {'op': 'set_tags', 's': 's', 'tags': tags}]
        ops.append({'op': 'observe', 's': 's'})
        native = replay.run(ops)
        got = {}

        def h(e):
            r = S.new_sentence(e, prog, 'raw', mk_str(text))
            cell = Cell(r.f[0].v)
            for cl, l in zip(S.call(e, prog, 'Sentence', 'boundaries_mut', [Ref(cell)]).cells(), labels):
                cl.v = Int(l, 8)
            if nt:
                S.call(e, prog, 'Sentence', 'reset_tags', [Ref(cell), usize(nt)])
                for cl, t in zip(S.call(e, prog, 'Sentence', 'tags_mut', [Ref(cell)]).cells(), tags):
                    cl.v = none() if t is None else some(Enum('Owned', [mk_str(t)], 'Cow'))
            o = S.observe(e, prog, cell)
            got['tokens'] = [{'start': t.start.conc(), 'end': t.end.conc(), 'surface': bytes(b.conc() for b in t.surface).decode('utf-8'),
                              'tags': [None if S.opt_tag_bytes(x) is None else bytes(b.conc() for b in S.opt_tag_bytes(x)).decode('utf-8') for x in t.tags]} for t in o.tokens]
            got['tokenized'] = bytes(b.conc() for b in o.tokenized).decode('utf-8')
            got['partial'] = bytes(b.conc() for b in o.partial).decode('utf-8')
        e.violations = []
        e.explore(h)
        runs += 1
        ob = native[-1]
        nat_panic = any(isinstance(r, dict) and 'panic' in r for r in native) or any(isinstance(v, dict) and 'panic' in v for v in ob.values())
        if e.violations:
            if not nat_panic:
                mism.append({'case': [text, labels, tags], 'engine': e.violations[0].msg, 'native': ob})
            continue
        if nat_panic:
            mism.append({'case': [text, labels, tags], 'engine': got, 'native': ob}); continue
        for k in ('tokens', 'tokenized', 'partial'):
            if got[k] != ob[k]:
                mism.append({'case': [text, labels, tags], 'key': k, 'engine': got[k], 'native': ob[k]}); break
    return {'runs': runs, 'mismatches': mism}
