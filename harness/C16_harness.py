"""C16 — normalisation keeps character positions (KyteaFullwidthFilter); the Tantivy token stream tiles the original text (jobs stream/*)."""
import re
import z3

from values import *
from engine import b_and
from values import PathEnd
import hlib
import sentlib as S
from models.m_core import bytes_eq
from models.m_str import decode_char

ID = 'C16'
PROGRAMS = {'core': dict(crate='vaporetto', features=['train', 'kytea'], extra=[dict(crate='vaporetto_rules'), dict(crate='vaporetto_tantivy')])}
UNIT_CAP = 100
BUDGET_S = {'quick': 600, 'thorough': 1200}      # wall-clock safety caps (exceeding one is reported as inconclusive); typical quick runs take 1-200 s
BOUNDS = {
    'quick': {'single character': 'EVERY Unicode scalar value (one symbolic character; the table forks it into its arms, the default arm stays symbolic)',
              'strings': 'length 0..3 over {a key, its image, a half-width katakana key, any value that is not a key (symbolic)}',
              'token stream (non-ASCII texts)': 'texts of 1..3 characters over the closed alphabet {a non-ASCII table key whose image has another character type, katakana A, hiragana A, a kanji} x 0..1 wsconst letters',
              'token stream': 'texts of n characters over {a, b, CR, LF, any other non-key NUL-free value (symbolic)} x wl wsconst letters (each any of D,R,H,T,K,O,G) with n + wl <= 3; '
                              'one model shape with symbolic weights'},
    'thorough': {'single character': 'every Unicode scalar value', 'strings': 'length 0..4 over the same classes', 'token stream': 'n <= 4, wl <= 2'},
}
OUTSIDE = ('strings longer than the bound (character-count preservation for longer strings follows from the single push per loop iteration, which is an argument, '
           'not a solver result); token stream: texts longer than 3 characters, more than 2 wsconst letters, models other than the one shape with symbolic weights, '
           'texts containing NUL (the core pipeline rejects them, so "breaks where the core pipeline breaks" is undefined; the adapter unwraps that error and panics — '
           'recorded in DESIGN.md as outside the property, not as a finding); Tantivy itself (Token is a plain struct stub); the G filter in the differential part '
           '(grapheme oracle answers may differ between the two runs)')
EXPLANATION = ('KyteaFullwidthFilter::filter (MIR of vaporetto_rules) is executed symbolically on a one-character string whose character is ANY Unicode scalar '
               'value: the match forks into its arms and z3 decides, for every value, that the output is exactly one character, that filtering the output '
               'again changes nothing (idempotence), and that a character is changed only if it is a key of the table read from the current source; short '
               'strings check that the number of characters is preserved.  Token stream: VaporettoTokenizer::token_stream / advance / token (MIR of vaporetto_tantivy) run on a '
               'symbolic text and wsconst string; in the same path the core pipeline (normalise, predict, line-break filter, configured filters) runs through the public API and '
               'z3 decides that the tokens tile the original text, carry its substrings and consecutive positions and break exactly where the pipeline breaks.')
ASSUMPTIONS = ['std String/char models of mirsym']
MUST_REACH = ['one output character per input character', 'normaliser is idempotent', 'only table keys change', 'cover:default-arm', 'cover:mapped-arm',
              'tokens tile the original text and break where the core pipeline breaks', 'empty text yields no token']


def table_from_source():
    src = open('/repo/vaporetto_rules/src/string_filters/kytea_fullwidth.rs', encoding='utf-8').read()
    tab = {}
    for m in re.finditer(r"'((?:\\.|[^'\\]))' => '((?:\\.|[^'\\]))',", src):
        k = m.group(1); v = m.group(2)
        k = k[1:] if k.startswith('\\') else k
        v = v[1:] if v.startswith('\\') else v
        tab[k] = v
    return tab


def jobs(tier, seed):
    js = [{'name': 'char/all-scalars', 'kind': 'char'}]
    for n in range(0, (3 if tier == 'quick' else 4) + 1):
        js.append({'name': 'string/%d' % n, 'kind': 'string', 'n': n})
    for n in range(0, (3 if tier == 'quick' else 4) + 1):
        for wl in range(0, 3):
            if tier == 'quick' and n + wl > 3:
                continue
            js.append({'name': 'stream/n%d/ws%d' % (n, wl), 'kind': 'stream', 'n': n, 'wl': wl})
            if 1 <= n <= 2 and wl == 0:
                js.append({'name': 'stream/n%d/ws%d/after-ba' % (n, wl), 'kind': 'stream', 'n': n, 'wl': wl, 'prior': 'ba\nb'})
    # texts without any ASCII character: a non-ASCII key of the normaliser table whose image has another character type, a katakana letter, any other value
    na = non_ascii_key()
    if na:
        for n in (1, 2, 3):
            for wl in (0, 1):
                if n + wl > 3:
                    continue
                js.append({'name': 'stream-na/n%d/ws%d' % (n, wl), 'kind': 'stream', 'n': n, 'wl': wl, 'classes': na + 'アあ人', 'closed': True})
    js.sort(key=lambda j: -(j.get('n', 0) + j.get('wl', 0)))
    return js


def non_ascii_key():
    """a table key outside ASCII whose image differs in character type (e.g. full-width hyphen-minus -> katakana prolonged sound mark)"""
    import predlib as P
    tab = table_from_source()
    for k in sorted(tab):
        if ord(k) >= 0x80 and P.get_type_py(k) != P.get_type_py(tab[k]) and P.get_type_py(tab[k]) == 4:
            return k
    for k in sorted(tab):
        if ord(k) >= 0x80 and P.get_type_py(k) != P.get_type_py(tab[k]):
            return k
    return ''


# ---------------------------------------------------------------------------------------------
# Tantivy token stream
STREAM_SHAPE = {'cw': 2, 'tw': 1, 'char': ['ａ', 'ｂａ'], 'type': ['R']}     # patterns over NORMALISED characters (full-width a, b)
WS_LETTERS = 'DRHTKOG'


def build_stream_predictor(e, prog):
    import predlib as P
    ms = P.fill_model(e, STREAM_SHAPE)
    model = P.build_model(e, prog, ms)
    r = P.new_predictor(e, prog, model, False)
    if r.var != 'Ok':
        raise Panic('Predictor::new rejected a well-formed model')
    return ms, r.f[0].v


def harness_stream(e, prog, job, st):
    import predlib as P
    from models.m_str import char_width
    ms, pred = e.memo('stream-pred', lambda: build_stream_predictor(e, prog))
    st['ms'] = ms
    # wsconst string: symbolic letters over the documented alphabet
    letters = [WS_LETTERS[e.choose(len(WS_LETTERS))] for _ in range(job['wl'])]
    st['ws'] = ''.join(letters)
    # the tokenizer is built by its public constructor (the harness does not depend on the struct's layout); Predictor::new inside it is memoised
    model = P.build_model(e, prog, ms)
    e.call_memo = {'Predictor::new': 'stream'}
    try:
        rt = e.run(hlib.fn(prog, 'VaporettoTokenizer', 'new'), [model, mk_strref(st['ws'])])
    finally:
        e.call_memo = None
    if rt.var != 'Ok':
        raise Panic('VaporettoTokenizer::new rejected a well-formed model / valid wsconst string')
    tcell = Cell(rt.f[0].v)
    if job.get('prior'):
        # the same tokenizer object first streams another text to the end (Tantivy calls token_stream once per document)
        ps = e.run(hlib.fn(prog, 'VaporettoTokenizer', 'token_stream', 'Tokenizer'), [Ref(tcell), mk_strref(job['prior'])])
        pcell = Cell(ps)
        g = 0
        while e.truth(e.run(hlib.fn(prog, 'VaporettoTokenStream', 'advance', 'TokenStream'), [Ref(pcell)])):
            g += 1
            if g > len(job['prior']) + 2:
                raise Panic('token stream yields more tokens than characters')
    # text classes: two table keys, CR, LF, and "any other value that is not a key of the normaliser table" (the table itself is covered for every
    # scalar value by the char/all-scalars job; excluding the keys here keeps the 96-arm match from forking on every character)
    classes = job.get('classes') or 'ab\r\n'
    if job.get('closed'):
        ss = S.SymStr()
        for ci in range(job['n']):
            k = e.choose(len(classes))
            ss.chars.append(Int(ord(classes[k]), 32, False, ('char',))); ss.vars.append(None)
    else:
        ss = S.sym_string(e, 'x', job['n'], classes, exclude='\0' + ''.join(k for k in table_from_source() if k not in classes))
    st['s'] = ss
    sv = hlib.build_str(e, ss.chars)
    text = hlib.strref_of(sv)
    stream = e.run(hlib.fn(prog, 'VaporettoTokenizer', 'token_stream', 'Tokenizer'), [Ref(tcell), text])
    scell = Cell(stream)
    toks = []
    guard = 0
    while True:
        r = e.run(hlib.fn(prog, 'VaporettoTokenStream', 'advance', 'TokenStream'), [Ref(scell)])
        if not e.truth(r):
            break
        t = e.run(hlib.fn(prog, 'VaporettoTokenStream', 'token', 'TokenStream'), [Ref(scell)])
        tv = t.c.v
        toks.append((tv.f[0].v, tv.f[1].v, tv.f[2].v, list(tv.f[3].v.b)))
        guard += 1
        if guard > job['n'] + 2:
            raise Panic('token stream yields more tokens than characters')
    n = job['n']
    if n == 0:
        e.check(len(toks) == 0, 'empty text yields no token')
        return
    # the core pipeline, run in the same path: normalise -> predict -> line-break filter -> configured filters
    norm = run_filter(e, prog, Str(list(sv.b)))
    rs = S.new_sentence(e, prog, 'raw', norm)
    cell = Cell(rs.f[0].v)
    S.call(e, prog, 'Predictor', 'predict', [Ref(Cell(pred)), Ref(cell)])
    e.grapheme_choices = None
    e.run(hlib.fn(prog, 'SplitLinebreaksFilter', 'filter', 'SentenceFilter'), [Ref(Cell(Agg([], ty='SplitLinebreaksFilter'))), Ref(cell)])
    for ch in letters:
        if ch == 'G':
            raise PathEnd()     # the grapheme oracle is nondeterministic: its answers in the two runs need not agree (stream-only properties are checked below for G in a separate job kind)
        filt = P.wsconst_filter(e, prog, ch)
        e.run(hlib.fn(prog, 'KyteaWsConstFilter', 'filter', 'SentenceFilter'), [Ref(Cell(filt)), Ref(cell)])
    labels = S.seq_vals(S.call(e, prog, 'Sentence', 'boundaries', [Ref(cell)]))
    L = [e.concretize(l) for l in labels]
    offs = [0]
    for c in ss.chars:
        offs.append(offs[-1] + char_width(e, c))
    ends = [offs[i + 1] for i in range(n - 1) if L[i] == 1] + [offs[n]]
    okk = len(toks) == len(ends)
    prev = 0
    if okk:
        for k, ((a, b, pos, tb), en) in enumerate(zip(toks, ends)):
            okk = b_and(okk, a.conc() == prev and b.conc() == en and pos.conc() == k)
            okk = b_and(okk, bytes_eq(e, tb, sv.b[prev:en]))
            prev = en
    e.check(okk, 'tokens tile the original text and break where the core pipeline breaks')


def harness_stream_g(e, prog, job, st):
    pass


def run_filter(e, prog, sv):
    f = hlib.fn(prog, 'KyteaFullwidthFilter', 'filter', 'StringFilter')
    return e.run(f, [Ref(Cell(Agg([], ty='KyteaFullwidthFilter'))), hlib.strref_of(sv)], "<KyteaFullwidthFilter as StringFilter<&str>>::filter")


def make(e, progs, job):
    prog = progs['core']
    st = {}
    tab = table_from_source()

    def harness(e):
        if job['kind'] == 'stream':
            return harness_stream(e, prog, job, st)
        if job['kind'] == 'char':
            c = hlib.sym_char(e, 'c')
            chars = [c]
        else:
            keys = sorted(tab)
            rep = ['a', tab.get('a', 'ａ'), 'ｶ' if 'ｶ' in tab else keys[-1]]
            chars = []
            for i in range(job['n']):
                k = e.choose(4)
                if k < 3:
                    chars.append(Int(ord(rep[k]), 32, False, ('char',)))
                else:
                    c = hlib.sym_char(e, 'c%d' % i)
                    e.add(z3.And([c.t != ord(x) for x in keys]))
                    chars.append(c)
        st['chars'] = chars
        sv = hlib.build_str(e, chars)
        out = run_filter(e, prog, sv)
        ob = out.b
        oc = S.chars_of_bytes(e, ob)
        e.check(len(oc) == len(chars), 'one output character per input character')
        out2 = run_filter(e, prog, Str(list(ob)))
        e.check(bytes_eq(e, out2.b, ob), 'normaliser is idempotent')
        if len(oc) == len(chars):
            okk = True
            for a, b in zip(chars, oc):
                if type(a.t) is int:
                    want = tab.get(chr(a.t), chr(a.t))
                    okk = b_and(okk, e.binop('Eq', Int(b.t, 32), Int(ord(want), 32)))
                    if chr(a.t) in tab:
                        e.cover('mapped-arm')
                else:
                    # symbolic: unchanged unless it is a key
                    same = e.binop('Eq', Int(a.t, 32), Int(b.t, 32))
                    iskey = z3.Or([a.t == ord(k) for k in tab]) if tab else False
                    okk = b_and(okk, z3.Or(same, iskey) if not isinstance(same, bool) else (same or iskey))
                    e.cover('default-arm')
            e.check(okk, 'only table keys change')

    def describe(m):
        if job['kind'] == 'stream':
            import predlib as P
            text = st['s'].py(m) if 's' in st else ''
            mj = P.model_json(st['ms'], m) if 'ms' in st else None
            return {'property': ID, 'job': job, 'text': text, 'wsconst': st.get('ws', ''), 'model': mj,
                    'ops': [{'op': 'model', 'id': 'm', 'data': mj}, {'op': 'tantivy_stream', 'model': 'm', 'wsconst': st.get('ws', ''), 'text': text}]}
        text = hlib.model_str(m, st['chars'])
        return {'property': ID, 'job': job, 'text': text, 'ops': [{'op': 'fullwidth', 'text': text}]}

    def sample():
        if job['kind'] == 'stream':
            if e.solver is None or 's' not in st or e._check() != z3.sat:
                return None
            return {'job': job['name'], 'text': st['s'].py(e.solver.model()), 'wsconst': st.get('ws')}
        if e.solver is None or 'chars' not in st or e._check() != z3.sat:
            return None
        return {'job': job['name'], 'text': hlib.model_str(e.solver.model(), st['chars'])}
    e.sample = sample
    return harness, describe


def role(v):
    msg = v['msg']
    if v['kind'] != 'assert' or msg.startswith('MIR assert'):
        return 'panic:%s:%s' % (hlib.panic_site(v), hlib.panic_kind(msg))
    return 'normaliser:' + msg


def confirm_stream(sc, replay):
    """native: the real VaporettoTokenizer (Tantivy API) against the core pipeline run through the replay driver"""
    text = sc['text']; ws = sc.get('wsconst', '')
    res = replay.run([{'op': 'model', 'id': 'm', 'data': sc['model']}, {'op': 'model_dump', 'model': 'm'}])
    data = res[-1].get('bytes')
    r = replay.run_tantivy(data, ws, text, prior=sc.get('job', {}).get('prior'))
    if 'panic' in r or 'crash' in r:
        return True, {'native_violations': ['token stream panicked: %s' % (r.get('panic') or r.get('stderr'))]}
    if 'tokens' not in r:
        return False, {'native': r}
    toks = r['tokens']
    bad = []
    if text == '':
        if toks:
            bad.append('empty text yields no token')
        return bool(bad), {'native_violations': bad}
    norm = replay.run([{'op': 'fullwidth', 'text': text}])[0]['out']
    ops = [{'op': 'model', 'id': 'm', 'data': sc['model']}, {'op': 'predictor', 'id': 'p', 'model': 'm', 'tags': False},
           {'op': 'sentence', 'id': 's', 'kind': 'raw', 'text': norm}, {'op': 'predict', 's': 's', 'p': 'p'}, {'op': 'filter', 's': 's', 'kind': 'linebreaks'}]
    for ch in ws:
        ops.append({'op': 'filter', 's': 's', 'kind': 'graphemes'} if ch == 'G' else {'op': 'filter', 's': 's', 'kind': 'wsconst', 'arg': ch})
    ops.append({'op': 'observe', 's': 's'})
    ob = replay.run(ops)[-1]
    if not isinstance(ob, dict) or 'boundaries' not in ob:
        return False, {'native': ob}
    offs = [0]
    for c in text:
        offs.append(offs[-1] + len(c.encode('utf-8')))
    ends = [offs[i + 1] for i, b in enumerate(ob['boundaries']) if b == 1] + [offs[-1]]
    tb = text.encode('utf-8')
    prev = 0
    if len(toks) != len(ends):
        bad.append('%d tokens, the core pipeline yields %d' % (len(toks), len(ends)))
    for k, (t, en) in enumerate(zip(toks, ends)):
        if t['from'] != prev or t['to'] != en or t['position'] != k or t['text'].encode('utf-8') != tb[prev:en]:
            bad.append('token %d is %r, the core pipeline gives bytes %d..%d' % (k, t, prev, en))
            break
        prev = en
    return bool(bad), {'native_violations': bad, 'tokens': toks[:8], 'core_boundaries': ob['boundaries']}


def confirm(sc, replay):
    if sc.get('job', {}).get('kind') == 'stream':
        return confirm_stream(sc, replay)
    res = replay.run(sc['ops'] + [{'op': 'fullwidth', 'text': ''}])
    r = res[0]
    if 'panic' in r:
        return True, {'native': r}
    out = r['out']
    res2 = replay.run([{'op': 'fullwidth', 'text': out}])
    bad = []
    if len(out) != len(sc['text']):
        bad.append('one output character per input character')
    if res2[0].get('out') != out:
        bad.append('normaliser is idempotent')
    tab = table_from_source()
    if any(a != b and a not in tab for a, b in zip(sc['text'], out)):
        bad.append('only table keys change')
    return bool(bad), {'native_violations': bad, 'out': out}


def validate(progs, replay, seed, tier):
    """engine validation: the engine's filter output equals the native output on concrete strings"""
    import random
    from engine import Engine
    prog = progs['core']
    e = Engine(prog)
    rnd = random.Random(seed + 41)
    tab = table_from_source()
    pool = list(tab) + list(tab.values()) + ['あ', 'z', 'Z', '9', ' ', '𠀋', 'é']
    runs = 0; mism = []
    for _ in range(30):
        text = ''.join(rnd.choice(pool) for _ in range(rnd.randint(0, 6)))
        got = {}

        def h(e):
            got['out'] = bytes(b.conc() for b in run_filter(e, prog, mk_str(text)).b).decode('utf-8')
        e.violations = []
        e.explore(h)
        nat = replay.run([{'op': 'fullwidth', 'text': text}])[0].get('out')
        runs += 1
        if e.violations or got.get('out') != nat:
            mism.append({'text': text, 'engine': got.get('out'), 'native': nat})
    return {'runs': runs, 'mismatches': mism}
