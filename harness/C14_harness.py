"""C14 — a serialised predictor behaves exactly like the original."""
import z3

from values import *
from engine import b_and
import hlib
import sentlib as S
import predlib as P
from models.m_core import values_eq, bytes_eq
from models.m_seq import seq_values
import C07_harness
from C08_harness import obs_equal

ID = 'C14'
PROGRAMS = {'core': dict(crate='vaporetto', features=['train', 'kytea'])}
UNIT_CAP = 150
BUDGET_S = {'quick': 600, 'thorough': 1200}      # wall-clock safety caps (exceeding one is reported as inconclusive); typical quick runs take 1-200 s

SHAPES = {
    'plain': ({'cw': 2, 'tw': 4, 'char': ['a', 'ba'], 'type': ['RO'], 'dict': ['ab']}, False),
    'variable': ({'cw': 5, 'tw': 1, 'char': ['a']}, False),
    'cached': ({'cw': 1, 'tw': 1, 'char': ['b'], 'type': ['R', 'H']}, False),
    # a window of 8 gives a 16-entry (variable-layout) vector whose whole second half may be zero: the trimmed vector fits the fixed layout
    'window8': ({'cw': 8, 'tw': 1, 'char': ['a'], 'free_tail': 8}, False),
    # nine tag classes: the bias vector is longer than the fixed layout and may end in zeros
    'manytags': ({'cw': 1, 'tw': 1, 'char': ['a'], 'free_tail': 1, 'free_tag_bias': 2,
                  'tags': [{'token': 'a', 'cands': [['p1', 'p2', 'p3', 'p4', 'p5'], ['q1', 'q2', 'q3', 'q4']], 'char': [('a', [0])], 'type': []}]}, True),
    'tagged': ({'cw': 2, 'tw': 2, 'char': ['b'], 'type': ['R'],
                'tags': [{'token': 'a', 'cands': [['X'], ['p', 'q', 'r']], 'char': [('ba', [0, 1]), ('a', [1])], 'type': [('RR', [0])]},
                         {'token': 'ab', 'cands': [['N', 'V'], []], 'char': [('b', [0, 2])], 'type': []}]}, True),
}
BOUNDS = {
    'quick': {'shapes': sorted(SHAPES), 'weights': 'symbolic i16 weights: the last two (window8: eight; manytags: also the last two tag-bias entries) weights of the first table entry range over all of i16 incl. 0 (trailing-zero trimming), all others over 1..32767 (so that merged sums cannot cancel to zero and fork the trimming loop)',
              'text': '1..2 symbolic characters (1..3 for the variable-layout shape)', 'trailing bytes': '0..2 symbolic bytes'},
    'thorough': {'shapes': sorted(SHAPES), 'weights': 'as quick', 'text': '1..4 symbolic characters (1..3 for the shapes tagged and window8, 1..2 for manytags)', 'trailing bytes': '0..3'},
}
OUTSIDE = ('bincode byte format and daachorse (de)serialisation internals (typed token stream / opaque automaton token by contract); shapes outside the catalogue; '
           'weight vectors with several simultaneous zero entries beyond the first table entry')
EXPLANATION = ('Predictor::serialize_to_vec and deserialize_from_slice_unchecked with the hand-written Encode/BorrowDecode of PredictorData, the scorers, '
               'WeightVector (trim_end_zeros) and SerializableHashMap are executed symbolically (MIR) over the typed-token model of bincode; the original and '
               'the deserialised predictor then predict (and tag, with score storing) the same symbolic text in the same path and z3 decides that scores, '
               'labels, tags and tag scores are equal and that exactly the trailing bytes are returned.')
ASSUMPTIONS = ['bincode as typed token stream; daachorse serialize/deserialize_unchecked as an opaque token that only self-produced bytes carry', 'std container models of mirsym',
               'hash-map iteration in insertion order']
MUST_REACH = ['deserialised predictor predicts identically', 'exactly the trailing bytes are returned']


def jobs(tier, seed):
    js = []
    for name in sorted(SHAPES):
        for n in range(1, (3 if tier == 'quick' else 4) + 1):
            for tr in ((0, 2) if tier == 'quick' else (0, 1, 3)):
                if tr and n > 1:
                    continue
                if tier == 'quick' and n == 3 and name not in ('variable', 'window8'):
                    continue
                if tier != 'quick' and n == 4 and name in ('tagged', 'manytags', 'window8'):
                    continue        # arg-max chains over four symbolic characters time the solver out; stated in the bounds
                if tier != 'quick' and n == 3 and name == 'manytags':
                    continue
                js.append({'name': 'serde/%s/n%d/t%d' % (name, n, tr), 'shape': name, 'n': n, 'trailing': tr})
    js.sort(key=lambda j: -j['n'])
    return js


def build(e, prog, shape, tags, ntrail):
    ms = P.fill_model(e, shape)
    # non-zero assumption for all weights except the first weight list of each table (keeps trim_end_zeros from forking everywhere)
    free = set()
    for tab in (ms.char, ms.type, ms.dict):
        if tab:
            free.update(id(x) for x in tab[0][1][-shape.get('free_tail', 2):])
            break
    if shape.get('free_tag_bias'):
        # the last entries of the first tag model's bias vector may be zero as well
        free.update(id(x) for x in ms.tag_models[0]['bias'][-shape['free_tag_bias']:])
    for name, v in ms.vars.items():
        if id(v) not in free and name != 'bias' and type(v.t) is not int:
            e.add(v.t > 0)
            v.rng = (1, 32767)
    model = P.build_model(e, prog, ms)
    r = P.new_predictor(e, prog, model, tags)
    if r.var != 'Ok':
        raise Panic('Predictor::new rejected a well-formed model')
    p1 = Cell(r.f[0].v)
    rs = S.call(e, prog, 'Predictor', 'serialize_to_vec', [Ref(p1)])
    if rs.var != 'Ok':
        raise Panic('serialize_to_vec failed')
    data = seq_values(rs.f[0].v)
    trail = [Int(z3.BitVec('tr%d' % i, 8), 8) for i in range(ntrail)]
    buf = Seq(list(data) + trail, elt='u8')
    rd = S.call(e, prog, 'Predictor', 'deserialize_from_slice_unchecked', [SliceRef(buf, 0, len(buf.e))])
    if rd.var != 'Ok':
        raise Panic('deserialize_from_slice_unchecked rejected self-produced bytes')
    p2 = Cell(rd.f[0].v.f[0].v)
    rest = seq_values(rd.f[0].v.f[1].v)
    if tags:
        S.call(e, prog, 'Predictor', 'store_tag_scores', [Ref(p1), True])
        S.call(e, prog, 'Predictor', 'store_tag_scores', [Ref(p2), True])
    return ms, p1, p2, trail, rest


def make(e, progs, job):
    prog = progs['core']
    shape, tags = SHAPES[job['shape']]
    st = {}

    def harness(e):
        ms, p1, p2, trail, rest = e.memo(('ser', job['shape'], job['trailing']), lambda: build(e, prog, shape, tags, job['trailing']))
        st['ms'] = ms; st['trail'] = trail
        e.check(C07_harness.elems_equal(e, rest, trail), 'exactly the trailing bytes are returned')
        ss = S.sym_string(e, 'x', job['n'], P.pattern_alphabet(shape), exclude='\0')
        st['s'] = ss
        obs = []
        for pc in (p1, p2):
            r = S.new_sentence(e, prog, 'raw', hlib.build_str(e, ss.chars))
            cell = Cell(r.f[0].v)
            P.prepare_types(e, prog, cell, shape)
            S.call(e, prog, 'Predictor', 'predict', [Ref(pc), Ref(cell)])
            cands = None
            if tags:
                S.call(e, prog, 'Sentence', 'fill_tags', [Ref(cell)])
            o = S.observe(e, prog, cell, writers=True, tokens=True)
            if tags:
                cands = []
                it = Cell(S.call(e, prog, 'Sentence', 'iter_tokens', [Ref(cell)]))
                while True:
                    nx = S.call(e, prog, 'TokenIterator', 'next', [Ref(it)], 'Iterator')
                    if nx.var == 'None':
                        break
                    cands.append(S.call(e, prog, 'Token', 'tag_candidates', [Ref(Cell(nx.f[0].v))]))
            obs.append((o, cands))
        e.check(obs_equal(e, obs[0][0], obs[1][0], obs[0][1], obs[1][1]), 'deserialised predictor predicts identically')

    def describe(m):
        ms = st['ms']
        text = st['s'].py(m) if 's' in st else 'a'
        mj = P.model_json(ms, m)
        tr = [m.eval(x.t, model_completion=True).as_long() for x in st.get('trail', [])]
        cands = bool(tags)
        ops = [{'op': 'model', 'id': 'm', 'data': mj},
               {'op': 'predictor', 'id': 'p1', 'model': 'm', 'tags': tags, 'store_scores': tags},
               {'op': 'predictor', 'id': 'p2', 'model': 'm', 'tags': tags, 'store_scores': tags, 'via_serialize': True, 'trailing': tr}]
        for pid in ('p1', 'p2'):
            ops += [{'op': 'sentence', 'id': 's' + pid, 'kind': 'raw', 'text': text}, {'op': 'predict', 's': 's' + pid, 'p': pid}]
            if tags:
                ops.append({'op': 'fill_tags', 's': 's' + pid})
            ops.append({'op': 'observe', 's': 's' + pid, 'cands': cands})
        return {'property': ID, 'job': job, 'text': text, 'model': mj, 'trailing': tr, 'ops': ops}

    def sample():
        if e.solver is None or 's' not in st or e._check() != z3.sat:
            return None
        return {'job': job['name'], 'text': st['s'].py(e.solver.model())}
    e.sample = sample
    return harness, describe


def role(v):
    d = v.get('data') or {}
    job = d.get('job', {})
    msg = v['msg']
    if v['kind'] != 'assert' or msg.startswith('MIR assert'):
        return 'panic:%s:%s:%s' % (hlib.panic_site(v), hlib.panic_kind(msg), job.get('shape'))
    return '%s:%s' % (msg, job.get('shape'))


def confirm(sc, replay):
    res = replay.run(sc['ops'])
    for op, r in zip(sc['ops'], res):
        if isinstance(r, dict) and ('panic' in r or 'crash' in r or 'err' in r):
            return True, {'native_violations': ['%s: %s' % (op['op'], r)]}
    bad = []
    if res[2].get('rest') != sc['trailing']:
        bad.append('exactly the trailing bytes are returned')
    obs = [r for op, r in zip(sc['ops'], res) if op['op'] == 'observe']
    diff = [k for k in obs[0] if obs[0][k] != obs[1].get(k)]
    if diff:
        bad.append('deserialised predictor predicts identically: ' + ','.join(diff))
    return bool(bad), {'native_violations': bad}
