"""C01 — boundary scores and decisions equal the pointwise linear model.

One job per (model shape, text length).  Inside a job the solver decides over every weight (i16 range),
the bias, every text character (any NUL-free scalar value) and the pre-existing boundary labels.
"""
import json
import z3

from values import *
from engine import b_and
import hlib
import sentlib as S
import predlib as P

ID = 'C01'
PROGRAMS = {'core': dict(crate='vaporetto', features=['train', 'kytea'])}
UNIT_CAP = 200
BUDGET_S = {'quick': 600, 'thorough': 1200}      # wall-clock safety caps (exceeding one is reported as inconclusive); typical quick runs take 1-200 s

# model shapes: concrete pattern strings / window sizes; all weights and the bias are symbolic
SHAPES = {
    'c1-a':        {'cw': 1, 'tw': 1, 'char': ['a']},
    'c2-suffix':   {'cw': 2, 'tw': 1, 'char': ['a', 'ba', 'aba']},
    'c3-ng=dict':  {'cw': 3, 'tw': 1, 'char': ['ab'], 'dict': ['ab']},
    'd2-long':     {'cw': 2, 'tw': 1, 'dict': ['a', 'ba', 'abab']},
    'c4-fixed8':   {'cw': 4, 'tw': 1, 'char': ['a', 'ba']},
    'c5-var':      {'cw': 5, 'tw': 1, 'char': ['a']},
    'c9-var':      {'cw': 9, 'tw': 1, 'char': ['ab', 'b']},
    'c2-mb':       {'cw': 2, 'tw': 1, 'char': ['あ', '𠀋あ', 'é']},
    't1-cache':    {'cw': 1, 'tw': 1, 'type': ['H']},
    't2-cache':    {'cw': 1, 'tw': 2, 'type': ['R', 'RR', 'KH']},
    't4-nocache':  {'cw': 1, 'tw': 4, 'type': ['RO', 'O']},
    # chains of three nested suffixes whose middle element sorts after the longest one (suffix-weight merging visits x before y)
    't2-nested':   {'cw': 1, 'tw': 2, 'type': ['HKH', 'KH', 'H']},
    't4-nested':   {'cw': 1, 'tw': 4, 'type': ['HKH', 'KH', 'H']},
    'mix':         {'cw': 2, 'tw': 2, 'char': ['a'], 'type': ['RD'], 'dict': ['a1']},
    'c3-dictsuf':  {'cw': 3, 'tw': 1, 'char': ['ba'], 'dict': ['a', 'cba']},
    'empty':       {'cw': 2, 'tw': 2},
}
THOROUGH_SHAPES = {
    'c255':        {'cw': 255, 'tw': 1, 'char': ['a']},
    't3-cache':    {'cw': 1, 'tw': 3, 'type': ['HK']},
    'c3-three':    {'cw': 3, 'tw': 3, 'char': ['a', 'b', 'ab', 'bab'], 'type': ['O', 'RO'], 'dict': ['b', 'ab']},
    'c8-edge':     {'cw': 8, 'tw': 1, 'char': ['a', 'aaaaaaaaa']},
}
BOUNDS = {
    'quick': {'text_chars': '1..4 (1..3 for shapes with type n-grams)', 'shapes': sorted(SHAPES), 'weights': 'every value of the signed 16-bit range; bias in [-2^20, 2^20]',
              'text': 'every NUL-free scalar value per character (pattern characters as concrete classes, every other value symbolic per UTF-8 width)'},
    'thorough': {'text_chars': '1..6 (1..4 with type n-grams)', 'shapes': sorted(SHAPES) + sorted(THOROUGH_SHAPES) + ['up to 24 random shapes drawn from VERIF_SEED (windows 1..4), texts of 1..3 characters'], 'weights': 'signed 16-bit', 'text': 'every NUL-free scalar value'},
}
OUTSIDE = ('for type window 3 the quick tier runs the real add_scores on a score table given by its specification (the real 8^6 table construction runs in the thorough tier); longer texts; model shapes (sets of patterns / window sizes) outside the catalogue; ill-formed models (weight counts other than one per covered position); '
           'daachorse itself (contract model: DESIGN.md appendix B); the 8^6 type-score table of window 3 only in thorough')
EXPLANATION = ('Predictor::new and Predictor::predict with all scorers (char/type, boundary/cache, suffix merging, fixed/variable weight layout) are executed '
               'symbolically (MIR) on a model whose weights and bias are symbolic and a text of symbolic characters; z3 decides on every path that each '
               'reported score equals bias + sum over occurrences of every entry of the weight for that boundary, that the label is WB iff score > 0, and '
               'that no panic / failed debug_assert / unchecked-precondition violation is reachable.')
ASSUMPTIONS = ['daachorse behaves as its documented contract (value = insertion index; no-suffix iterator = longest match per end position)',
               'std container models of mirsym', 'weights within i16, |bias| <= 2^20 (sums stay inside i32 as for any real model)']
MUST_REACH = ['score equals the pointwise linear model', 'label is WB iff score > 0', 'cover:pattern-occurs', 'cover:multibyte']


def text_len_range(tier, shape):
    if P.uses_types(shape):
        return range(1, (3 if tier == 'quick' else 4) + 1)
    if shape.get('cw', 1) >= 9:
        return range(1, (4 if tier == 'quick' else 5) + 1)
    return range(1, (4 if tier == 'quick' else 6) + 1)


def jobs(tier, seed):
    shapes = dict(SHAPES)
    if tier == 'thorough':
        shapes.update(THOROUGH_SHAPES)
    js = []
    for name in CACHE3_SHAPES:
        for n in range(1, (3 if tier == 'quick' else 5) + 1):
            js.append({'name': '%s/n%d' % (name, n), 'shape': name, 'n': n, 'cache3': True})
    for name, sh in shapes.items():
        for n in text_len_range(tier, sh):
            js.append({'name': '%s/n%d' % (name, n), 'shape': name, 'n': n})
    if tier == 'thorough':
        # model shapes drawn from VERIF_SEED (windows 1..4, unique n-grams, dictionary words): the property quantifies over all well-formed models
        import random
        rnd = random.Random(seed * 257 + 3)
        for k in range(24):
            sh = P.random_shape(rnd, tags=False, max_w=4)
            if not any(sh.get(x) for x in ('char', 'type', 'dict')):
                continue
            for n in (1, 2, 3):
                js.append({'name': 'random%02d/n%d' % (k, n), 'shape': 'random%02d' % k, 'shape_def': sh, 'n': n})
    js.sort(key=lambda j: -j['n'])
    return js


_EXTRA_SHAPES = {}


def get_shape(name):
    return SHAPES.get(name) or THOROUGH_SHAPES.get(name) or CACHE3_SHAPES.get(name) or _EXTRA_SHAPES[name]


# ---------------------------------------------------------------------------------------------
# type window 3: the 8^6-entry score table of TypeScorerBoundaryCache::new costs 262 144 loop iterations per construction, which the
# quick tier cannot afford.  Decomposition: the table CONTENT is produced by the real `new` for windows 1 and 2 (quick) and 3 (thorough,
# shape t3-cache); here the real `add_scores` / `predict` run for window 3 on a table whose entries are given lazily by the table's
# specification (entry(seqid) = sum of the weights of the type n-grams occurring in the decoded 6-type sequence, for the middle boundary).
CACHE3_SHAPES = {
    'cache3-spec-table': {'cw': 1, 'tw': 3, 'type': ['H', 'HK', 'KHK']},
}


class LazyCells:
    def __init__(self, n, fn):
        self.n = n; self.fn = fn; self.cells = {}

    def __len__(self):
        return self.n

    def __getitem__(self, i):
        if isinstance(i, slice):
            raise Unsupported('slice of the lazy score table')
        if i < 0 or i >= self.n:
            raise IndexError(i)
        c = self.cells.get(i)
        if c is None:
            c = self.cells[i] = Cell(self.fn(i))
        return c


def build_cache3(e, prog, shape):
    ms = P.fill_model(e, shape)
    W = shape['tw']
    size = 2 * W

    def entry(seqid):
        seq = []
        x = seqid
        for _ in range(size):
            seq.append(x & 7); x >>= 3
        seq.reverse()
        if 7 in seq:
            return Int(0, 32, True)
        acc = Int(0, 32, True)
        for g, ws in ms.type:
            m = len(g)
            for end in range(m, size + 1):
                if seq[end - m:end] == list(g):
                    k = size - end
                    if k < len(ws):
                        acc = e.binop('Add', acc, ws[k])
        return acc
    table = Seq([], elt='i32')
    table.e = LazyCells(8 ** size, entry)
    cache = P.mk_struct(prog, 'TypeScorerBoundaryCache', scores=table, window_size=u8(W), sequence_mask=usize((1 << (3 * size)) - 1))
    names = prog.src.structs['PredictorData']
    fields = {'char_scorer': none(), 'type_scorer': some(Enum('BoundaryCache', [cache], 'TypeScorer')), 'bias': ms.bias,
              'tag_predictor': none(), 'n_tags': usize(0)}
    pd = P.mk_struct(prog, 'PredictorData', **{k: v for k, v in fields.items() if k in names})
    pn = prog.src.structs['Predictor']
    pf = {'data': pd, 'tag_scores': False}
    pred = P.mk_struct(prog, 'Predictor', **{k: v for k, v in pf.items() if k in pn})
    return ms, Cell(pred)


def build(e, prog, shape, predict_tags=False, concrete=None):
    ms = P.fill_model(e, shape, concrete)
    model = P.build_model(e, prog, ms)
    r = P.new_predictor(e, prog, model, predict_tags)
    if r.var != 'Ok':
        raise Panic('Predictor::new rejected a well-formed model')
    return ms, Cell(r.f[0].v)


def make(e, progs, job):
    prog = progs['core']
    if job.get('shape_def'):
        _EXTRA_SHAPES[job['shape']] = job['shape_def']
    shape = get_shape(job['shape'])
    st = {}

    def harness(e):
        if job.get('cache3'):
            ms, pcell = e.memo(('pred3', job['shape']), lambda: build_cache3(e, prog, shape))
        else:
            ms, pcell = e.memo(('pred', job['shape']), lambda: build(e, prog, shape))
        st['ms'] = ms
        ss = S.sym_string(e, 'x', job['n'], P.pattern_alphabet(shape), exclude='\0')
        st['s'] = ss
        sv = hlib.build_str(e, ss.chars)
        r = S.new_sentence(e, prog, 'raw', sv)
        if r.var != 'Ok':
            raise Panic('from_raw rejected a NUL-free non-empty text')
        cell = Cell(r.f[0].v)
        # pre-existing annotation (must be overwritten)
        pre = []
        for i, cl in enumerate(S.call(e, prog, 'Sentence', 'boundaries_mut', [Ref(cell)]).cells()):
            t = z3.BitVec('pre%d' % i, 8)
            e.add(z3.ULE(t, 2)); cl.v = Int(t, 8); pre.append(cl.v)
        types = P.prepare_types(e, prog, cell, shape)
        S.call(e, prog, 'Predictor', 'predict', [Ref(pcell), Ref(cell)])
        scores = S.seq_vals(S.call(e, prog, 'Sentence', 'boundary_scores', [Ref(cell)]))
        labels = S.seq_vals(S.call(e, prog, 'Sentence', 'boundaries', [Ref(cell)]))
        n = job['n']
        e.check(len(scores) == n - 1 and len(labels) == n - 1, 'one score and one label per boundary')
        if len(scores) != n - 1:
            return
        want = P.oracle_scores(e, ms, ss.chars, types)
        oks = True
        for got, w in zip(scores, want):
            oks = b_and(oks, e.binop('Eq', got, w))
        e.check(oks, 'score equals the pointwise linear model')
        okl = True
        for lab, w in zip(labels, want):
            pos = e.binop('Gt', w, Int(0, 32, True))
            lv = lab.z() if not isinstance(lab.t, int) else z3.BitVecVal(lab.t, 8)
            okl = b_and(okl, lv == z3.If(pos, z3.BitVecVal(1, 8), z3.BitVecVal(0, 8)) if not isinstance(pos, bool) else (lv == (1 if pos else 0)))
        e.check(okl, 'label is WB iff score > 0')
        if job['n'] <= 2 and not job.get('cache3'):
            # prediction on an already predicted sentence object (no update in between) still reports the model's scores
            S.call(e, prog, 'Predictor', 'predict', [Ref(pcell), Ref(cell)])
            scores2 = S.seq_vals(S.call(e, prog, 'Sentence', 'boundary_scores', [Ref(cell)]))
            labels2 = S.seq_vals(S.call(e, prog, 'Sentence', 'boundaries', [Ref(cell)]))
            ok2 = len(scores2) == n - 1 and len(labels2) == n - 1
            if ok2:
                for got, w in zip(scores2, want):
                    ok2 = b_and(ok2, e.binop('Eq', got, w))
                for l1, l2 in zip(labels, labels2):
                    ok2 = b_and(ok2, e.binop('Eq', l1, l2))
            st['again'] = True
            e.check(ok2, 'score equals the pointwise linear model')
        if any(len(chr(c.t).encode()) > 1 if type(c.t) is int else (c.org and len(c.org) > 1 and c.org[1] > 1) for c in ss.chars):
            e.cover('multibyte')
        if any(type(c.t) is int for c in ss.chars) or P.uses_types(shape):
            e.cover('pattern-occurs')

    def describe(m):
        ms = st['ms']
        text = st['s'].py(m)
        mj = P.model_json(ms, m)
        ops = [{'op': 'model', 'id': 'm', 'data': mj}, {'op': 'predictor', 'id': 'p', 'model': 'm', 'tags': False},
               {'op': 'sentence', 'id': 's', 'kind': 'raw', 'text': text}, {'op': 'predict', 's': 's', 'p': 'p'}, {'op': 'observe', 's': 's'}]
        if st.get('again'):
            ops += [{'op': 'predict', 's': 's', 'p': 'p'}, {'op': 'observe', 's': 's'}]
        return {'property': ID, 'job': job, 'text': text, 'model': mj, 'ops': ops}

    def sample():
        if e.solver is None or 's' not in st or e._check() != z3.sat:
            return None
        d = describe(e.solver.model())
        return {'job': job['name'], 'text': d['text'], 'bias': d['model']['bias'], 'char_ngrams': d['model']['char_ngrams'][:2]}
    e.sample = sample
    return harness, describe


def role(v):
    d = v.get('data') or {}
    job = d.get('job', {})
    msg = v['msg']
    if v['kind'] != 'assert' or msg.startswith('MIR assert'):
        return 'panic:%s:%s:%s' % (hlib.panic_site(v), hlib.panic_kind(msg), job.get('shape'))
    return '%s:%s' % (msg, job.get('shape'))


def native_violations(sc, res):
    for op, r in zip(sc['ops'], res):
        if isinstance(r, dict) and ('panic' in r or 'crash' in r):
            return ['panic in %s: %s' % (op['op'], r.get('panic'))]
        if isinstance(r, dict) and 'err' in r:
            return ['error in %s: %s' % (op['op'], r['err'])]
    want = P.concrete_scores(sc['model'], sc['text'])
    out = []
    for op, ob in zip(sc['ops'], res):
        if op['op'] != 'observe':
            continue
        okf, bad = S.native_obs_ok(ob)
        if not okf:
            return ['panic in accessors: %s' % bad]
        if ob['scores'] != want and 'score equals the pointwise linear model' not in out:
            out.append('score equals the pointwise linear model')
        if ob['boundaries'] != [1 if x > 0 else 0 for x in want] and 'label is WB iff score > 0' not in out:
            out.append('label is WB iff score > 0')
    return out


def confirm(sc, replay):
    res = replay.run(sc['ops'])
    v = native_violations(sc, res)
    return bool(v), {'native_violations': v, 'native_scores': (res[-1] or {}).get('scores') if isinstance(res[-1], dict) else None,
                     'oracle_scores': P.concrete_scores(sc['model'], sc['text'])}


def validation_cases(tier, seed):
    """engine validation: (a) the crate's own test model and expected scores (thorough: its type window 3 needs the 8^6 table),
    (b) random concrete models/texts through the engine and the native library"""
    import random
    rnd = random.Random(seed * 977 + 11)
    alphabet = ['a', 'b', 'c', '1', 'é', 'あ', '𠀋', 'ア', '人', ' ']
    shapes = sorted(SHAPES.items())
    cases = []
    if tier == 'thorough':
        cases.append({'kind': 'testmodel'})
    for _ in range(32 if tier == 'quick' else 160):
        name, sh = rnd.choice(shapes)
        text = ''.join(rnd.choice(alphabet + list(P.pattern_alphabet(sh)) * 2) for _ in range(rnd.randint(1, 7)))

        class Fake:
            pass
        ms0 = P.fill_model(Fake(), sh, concrete=DefaultDict(rnd))
        cases.append({'kind': 'random', 'shape': name, 'text': text, 'model': P.model_json(ms0)})
    return cases


def validate_case(e, progs, replay, case):
    import re
    prog = progs['core']
    if case['kind'] == 'testmodel':
        src = open('/repo/vaporetto/src/predictor.rs', encoding='utf-8').read()
        m = re.search(r'fn test_predict_boundaries\(\).*?assert_eq!\(&\[([-\d, ]+)\], sentence\.boundary_scores\(\)', src, re.S)
        expected = [int(x) for x in m.group(1).split(',')] if m else None
        mj = {'char_ngrams': [{'ngram': 'この人', 'weights': [1, -2, 3, 4]}, {'ngram': '人だ', 'weights': [-5, 6, 7, 8, 9]}],
              'type_ngrams': [{'ngram': [3, 3, 5], 'weights': [10, -11, 12, 13]}, {'ngram': [5, 3], 'weights': [-14, 15, 16, 17, -18]}],
              'dict': [{'word': '人', 'weights': [19, 20], 'comment': ''}, {'word': '地球', 'weights': [21, -22, 23], 'comment': ''}],
              'bias': 5, 'char_window_size': 3, 'type_window_size': 3, 'tag_models': []}
        text = 'この人は地球人だ'
    else:
        mj = case['model']; text = case['text']; expected = None
    got = engine_scores(e, prog, mj, text)
    nat = replay.run(scenario_ops(mj, text))[-1]
    nat_scores = nat.get('scores') if isinstance(nat, dict) else nat
    if nat_scores != got:
        return {'case': case.get('shape', case['kind']), 'text': text, 'engine': got, 'native': nat_scores, 'model': mj}
    return None


class DefaultDict(dict):
    def __init__(self, rnd):
        dict.__init__(self); self.rnd = rnd

    def __missing__(self, k):
        v = self.rnd.choice([0, 1, -1, 7, -32768, 32767, self.rnd.randint(-300, 300)])
        self[k] = v
        return v


def scenario_ops(mj, text):
    return [{'op': 'model', 'id': 'm', 'data': mj}, {'op': 'predictor', 'id': 'p', 'model': 'm', 'tags': False},
            {'op': 'sentence', 'id': 's', 'kind': 'raw', 'text': text}, {'op': 'predict', 's': 's', 'p': 'p'}, {'op': 'observe', 's': 's'}]


def shape_of_json(mj):
    inv = {v: k for k, v in P.TYPE_CODE.items()}
    return {'cw': mj['char_window_size'], 'tw': mj['type_window_size'], 'char': [d['ngram'] for d in mj['char_ngrams']],
            'type': [''.join(inv[x] for x in d['ngram']) for d in mj['type_ngrams']], 'dict': [d['word'] for d in mj['dict']],
            'char_nw': {d['ngram']: len(d['weights']) for d in mj['char_ngrams']},
            'type_nw': {''.join(inv[x] for x in d['ngram']): len(d['weights']) for d in mj['type_ngrams']}}


def engine_scores(e, prog, mj, text):
    """run the engine concretely on a model given as JSON"""
    sh = shape_of_json(mj)
    conc = {'bias': mj['bias']}
    for i, d in enumerate(mj['char_ngrams']):
        for k, w in enumerate(d['weights']):
            conc['c%d_%d' % (i, k)] = w
    for i, d in enumerate(mj['type_ngrams']):
        for k, w in enumerate(d['weights']):
            conc['t%d_%d' % (i, k)] = w
    for i, d in enumerate(mj['dict']):
        for k, w in enumerate(d['weights']):
            conc['d%d_%d' % (i, k)] = w
    got = {}

    def h(e):
        ms, pcell = build(e, prog, sh, concrete=conc)
        r = S.new_sentence(e, prog, 'raw', mk_str(text))
        cell = Cell(r.f[0].v)
        S.call(e, prog, 'Predictor', 'predict', [Ref(pcell), Ref(cell)])
        got['scores'] = [P.signed32(x.conc()) for x in S.seq_vals(S.call(e, prog, 'Sentence', 'boundary_scores', [Ref(cell)]))]
    e.violations = []
    e.explore(h)
    if e.violations:
        return {'panic': e.violations[0].msg}
    return got.get('scores')
