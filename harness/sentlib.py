"""Shared pieces of the sentence-level harnesses (C02–C05, C08, C15): symbolic inputs, running the
real accessors/writers of `Sentence` in the engine, reference ("spec") parsers/writers of the two
annotation formats, replay scenarios."""
import z3

from values import *
from engine import b_and, b_or, b_not, b_z
import hlib
from hlib import fn, field, fval
from models.m_str import encode_char, decode_char, str_bytes, utf8_valid
from models.m_core import bytes_eq

NWB, WB, UNK = 0, 1, 2


# ---------------------------------------------------------------------------------------------
# symbolic input strings

class SymStr:
    """a symbolic string: list of char Ints (concrete specials / symbolic others) + the z3 vars"""
    def __init__(self):
        self.chars = []; self.vars = []

    def py(self, m):
        out = []
        for c, v in zip(self.chars, self.vars):
            if type(c.t) is int:
                out.append(chr(c.t))
            else:
                out.append(chr(m.eval(c.t, model_completion=True).as_long()))
        return ''.join(out)


def sym_string(e, name, n, specials, exclude=''):
    """n characters, each forked into {each special (concrete)} ∪ {any other scalar value (symbolic)}"""
    s = SymStr()
    for i in range(n):
        c, v = hlib.sym_char_classes(e, '%s%d' % (name, i), specials, exclude)
        s.chars.append(c); s.vars.append(v)
    return s


def sym_len(e, name, lo, hi):
    """fork over a length in [lo, hi]"""
    k = e.choose(hi - lo + 1)
    return lo + k


def char_is(c, ch):
    """python bool: is the (classed) char Int the concrete special `ch`"""
    return type(c.t) is int and c.t == ord(ch)


# ---------------------------------------------------------------------------------------------
# running the real code

def call(e, prog, ty, method, args, trait=None):
    return e.run(fn(prog, ty, method, trait), args)


def new_sentence(e, prog, kind, strval):
    """Sentence::from_{raw,tokenized,partial_annotation}(text) -> Result"""
    if kind == 'raw':
        return e.call("Sentence::<'_, '_>::from_raw::<&str>", [hlib.strref_of(strval)])
    if kind == 'tokenized':
        return call(e, prog, 'Sentence', 'from_tokenized', [hlib.strref_of(strval)])
    if kind == 'partial':
        return call(e, prog, 'Sentence', 'from_partial_annotation', [hlib.strref_of(strval)])
    if kind == 'default':
        return ok(e.call("<Sentence<'_, '_> as Default>::default", []))
    raise ValueError(kind)


def update_sentence(e, prog, cell, kind, strval):
    if kind == 'raw':
        # update_raw takes impl Into<Cow<str>>; pass an owned String like the CLI does
        return e.call("Sentence::<'_, '_>::update_raw::<String>", [Ref(cell), Str(list(strval.b))])
    if kind == 'tokenized':
        return call(e, prog, 'Sentence', 'update_tokenized', [Ref(cell), hlib.strref_of(strval)])
    if kind == 'partial':
        return call(e, prog, 'Sentence', 'update_partial_annotation', [Ref(cell), hlib.strref_of(strval)])
    raise ValueError(kind)


def seq_vals(v):
    from models.m_seq import seq_values
    return seq_values(v)


class Obs:
    pass


def observe(e, prog, cell, writers=True, tokens=True):
    """run every public accessor / iterator / writer of the real code on the sentence; any panic
    propagates (and is a verdict).  Returns symbolic observations."""
    o = Obs()
    r = Ref(cell)
    o.raw = str_bytes(call(e, prog, 'Sentence', 'as_raw_text', [r]))
    o.char_types = seq_vals(call(e, prog, 'Sentence', 'char_types', [r]))
    o.boundaries = seq_vals(call(e, prog, 'Sentence', 'boundaries', [r]))
    o.scores = seq_vals(call(e, prog, 'Sentence', 'boundary_scores', [r]))
    o.tags = seq_vals(call(e, prog, 'Sentence', 'tags', [r]))
    o.n_tags = call(e, prog, 'Sentence', 'n_tags', [r])
    o.tokens = None
    if tokens:
        o.tokens = []
        it = Cell(call(e, prog, 'Sentence', 'iter_tokens', [r]))
        guard = 0
        while True:
            nx = call(e, prog, 'TokenIterator', 'next', [Ref(it)], 'Iterator')
            if nx.var == 'None':
                break
            tok = Cell(nx.f[0].v)
            t = Obs()
            t.start = call(e, prog, 'Token', 'start', [Ref(tok)])
            t.end = call(e, prog, 'Token', 'end', [Ref(tok)])
            t.surface = str_bytes(call(e, prog, 'Token', 'surface', [Ref(tok)]))
            t.tags = seq_vals(call(e, prog, 'Token', 'tags', [Ref(tok)]))
            o.tokens.append(t)
            guard += 1
            if guard > len(o.boundaries) + 2:
                raise Panic('token iterator yields more tokens than characters (does not terminate properly)')
    o.tokenized = None; o.partial = None
    if writers:
        buf = Cell(mk_str('stale'))
        call(e, prog, 'Sentence', 'write_tokenized_text', [r, Ref(buf)])
        o.tokenized = buf.v.b
        buf2 = Cell(mk_str('stale'))
        call(e, prog, 'Sentence', 'write_partial_annotation_text', [r, Ref(buf2)])
        o.partial = buf2.v.b
    return o


def opt_tag_bytes(v):
    """Option<Cow<str>> value -> None | list of byte Ints"""
    if v.var == 'None':
        return None
    return str_bytes(v.f[0].v)


def chars_of_bytes(e, bs):
    """decode a byte list into char Ints (structural when the bytes carry their origin)"""
    out = []
    i = 0
    while i < len(bs):
        c, w = decode_char(e, bs, i)
        out.append(c); i += w
    return out


def get_type_term(e, prog, c):
    r = e.run(fn(prog, 'CharacterType', 'get_type'), [c])
    return r


def same_char(e, a, b):
    if a is b:
        return True
    return e.binop('Eq', Int(a.t, 32), Int(b.t, 32))


def same_chars(e, xs, ys):
    if len(xs) != len(ys):
        return False
    r = True
    for a, b in zip(xs, ys):
        r = b_and(r, same_char(e, a, b))
    return r


# ---------------------------------------------------------------------------------------------
# reference ("spec") parsers.  They work on classed characters: a special is a concrete Int, any
# other character is symbolic and known to differ from every special, so python-level dispatch on
# `char_is` is exact on each path.

def spec_parse_tokenized(chars):
    """-> None if the spec rejects, else (text chars, boundaries, tags per char position (list of lists of
    char lists) ).  Mirrors the documented format: ' ' separates tokens, '/' starts a tag, '\\' escapes."""
    text = []; bounds = []; tags = []     # tags[i]: list of tags (each list of chars) attached to char i
    cur_tag = None
    prev_boundary = False
    escape = False
    for c in chars:
        if not escape and char_is(c, '\\'):
            escape = True; continue
        if not escape and char_is(c, ' '):
            if not text or prev_boundary:
                return None
            if cur_tag is not None:
                tags[-1].append(cur_tag); cur_tag = None
            prev_boundary = True; continue
        if not escape and char_is(c, '/'):
            if not text or prev_boundary:
                return None
            if cur_tag is not None:
                tags[-1].append(cur_tag)
            cur_tag = []; continue
        escape = False
        if char_is(c, '\0'):
            return None
        if cur_tag is not None:
            cur_tag.append(c); continue
        if text:
            bounds.append(WB if prev_boundary else NWB)
        prev_boundary = False
        text.append(c); tags.append([])
    if prev_boundary or not text:
        return None
    if cur_tag is not None:
        tags[-1].append(cur_tag)
    return text, bounds, tags


def spec_parse_partial(chars):
    text = []; bounds = []; tags = []
    cur_tag = None; escape = False; is_char = True
    for c in chars:
        if is_char:
            if char_is(c, '\0'):
                return None
            text.append(c); tags.append([]); is_char = False
            continue
        if not escape and char_is(c, '\\'):
            escape = True; continue
        if not escape and (char_is(c, ' ') or char_is(c, '-') or char_is(c, '|')):
            if cur_tag is not None:
                tags[-1].append(cur_tag); cur_tag = None
            bounds.append(UNK if char_is(c, ' ') else NWB if char_is(c, '-') else WB)
            is_char = True; continue
        if not escape and char_is(c, '/'):
            if cur_tag is not None:
                tags[-1].append(cur_tag)
            cur_tag = []; continue
        escape = False
        if cur_tag is None:
            return None
        cur_tag.append(c)
    if is_char or not text:
        return None
    if cur_tag is not None:
        tags[-1].append(cur_tag)
    return text, bounds, tags


def expected_tag_matrix(tags):
    """per-char tag lists -> (n_tags, flat list of None | char list) with empty tags as None, padded"""
    n_tags = max([len(t) for t in tags] + [0])
    flat = []
    for t in tags:
        for x in t:
            flat.append(x if x else None)
        flat.extend([None] * (n_tags - len(t)))
    return n_tags, flat


# ---------------------------------------------------------------------------------------------
# property pieces

def check_consistent(e, prog, o, label):
    """representation invariant of a sentence as seen through the public accessors"""
    chars = chars_of_bytes(e, o.raw)
    n = len(chars)
    e.check(len(o.char_types) == n, label + ': one character type per character')
    e.check(len(o.boundaries) + 1 == n, label + ': one boundary label per adjacent pair')
    nt = o.n_tags.conc()
    if nt is None:
        raise Unsupported('symbolic n_tags')
    e.check(len(o.tags) == n * nt, label + ': characters x tag-count tag slots')
    e.check(len(o.scores) == 0, label + ': no scores after parsing')
    if len(o.char_types) == n:
        okt = True
        for c, t in zip(chars, o.char_types):
            want = get_type_term(e, prog, c)
            okt = b_and(okt, e.binop('Eq', Int(want.t, 8), Int(t.t, 8)))
        e.check(okt, label + ': character types are get_type of each character')
    return chars


def check_is_default(e, prog, o, label):
    okd = len(o.raw) == 1 and o.raw[0].conc() == 0x20
    e.check(okd, label + ': raw text of a failed update is the single space')
    e.check(len(o.char_types) == 1 and o.char_types[0].conc() == 6, label + ': char types of default sentence')
    e.check(len(o.boundaries) == 0, label + ': default sentence has no boundaries')
    e.check(len(o.tags) == 0, label + ': default sentence has no tags')
    e.check(o.n_tags.conc() == 0, label + ': default sentence has tag count 0')
    e.check(len(o.scores) == 0, label + ': default sentence has no scores')


def check_meaning(e, o, chars, spec, label):
    """after a successful parse the sentence describes exactly the input (per the format spec)"""
    if spec is None:
        return      # the spec has no opinion on inputs it rejects (the property does not say which inputs are accepted)
    text, bounds, tags = spec
    e.check(same_chars(e, chars, text), label + ': raw text is the unescaped input')
    okb = len(o.boundaries) == len(bounds)
    if okb:
        for b, w in zip(o.boundaries, bounds):
            okb = b_and(okb, e.binop('Eq', Int(b.t, 8), Int(w, 8)))
    e.check(okb, label + ': boundary labels are those of the input')
    n_tags, flat = expected_tag_matrix(tags)
    e.check(o.n_tags.conc() == n_tags, label + ': tag count is the maximum number of tags on a character')
    okt = len(o.tags) == len(flat)
    if okt:
        for tv, w in zip(o.tags, flat):
            got = opt_tag_bytes(tv)
            if (got is None) != (w is None):
                okt = False; break
            if got is not None:
                okt = b_and(okt, same_chars(e, chars_of_bytes(e, got), w))
    e.check(okt, label + ': tags are those of the input')


# ---------------------------------------------------------------------------------------------
# native observation helpers (replay side)

def native_obs_ok(ob):
    """no accessor/writer/iterator panicked in a native observation dict"""
    bad = [k for k, v in ob.items() if isinstance(v, dict) and 'panic' in v]
    return (not bad), bad
