"""C19 — dictionary edits act as documented (library part); WordWeightRecord length check.

Decided: Model::replace_dictionary / Model::dictionary / WordWeightRecord::new and the score delta through the
real predictor.  Not decided here (stated in the manifest): the manipulate_model CSV/zstd round trip.
"""
import z3

from values import *
from engine import b_and
import hlib
import sentlib as S
import predlib as P
from models.m_core import values_eq

ID = 'C19'
PROGRAMS = {'core': dict(crate='vaporetto', features=['train', 'kytea'])}
UNIT_CAP = 200
BUDGET_S = {'quick': 200, 'thorough': 1800}

# (base shape, new dictionary words)
EDITS = {
    'replace-same-words': ({'cw': 2, 'tw': 1, 'char': ['a'], 'dict': ['a', 'ab']}, ['a', 'ab']),
    'add-remove': ({'cw': 2, 'tw': 1, 'char': ['ba'], 'dict': ['a', 'ba']}, ['ba', 'b', 'aba']),
    'empty-to-some': ({'cw': 1, 'tw': 1, 'char': ['a']}, ['a', 'あa']),
    'some-to-empty': ({'cw': 3, 'tw': 2, 'type': ['R'], 'dict': ['a', 'ab']}, []),
    'word=ngram': ({'cw': 2, 'tw': 1, 'char': ['ab'], 'dict': ['b']}, ['ab']),
}
BOUNDS = {
    'quick': {'edits': sorted(EDITS), 'text_chars': '1..3', 'weights': 'old and new dictionary weights: every signed 16-bit value',
              'record check': 'words of 0..3 symbolic characters x 0..5 weights'},
    'thorough': {'edits': sorted(EDITS), 'text_chars': '1..5', 'weights': 'signed 16-bit', 'record check': 'words of 0..4 symbolic characters x 0..6 weights'},
}
OUTSIDE = ('the manipulate_model tool (CSV quoting by the csv crate, zstd, serde) is NOT decided: its correctness lives in third-party crates; '
           'edits outside the catalogue; longer texts; 32-bit dictionary weights (sums are kept inside i32 by the i16 bound)')
EXPLANATION = ('Model::replace_dictionary, Model::dictionary, WordWeightRecord::new and two predictors (before/after the edit) are executed symbolically '
               '(MIR) in one path on the same symbolic text; z3 decides that the score difference at every boundary equals the sum over occurrences of '
               '(new - old) dictionary weights, that every other model field is unchanged, that dictionary() returns exactly the records that were set, '
               'and that a record is accepted iff it has one weight per boundary of the word.')
ASSUMPTIONS = ['daachorse contract model', 'std container models of mirsym', 'dictionary weights within i16 for the score-delta clause']
MUST_REACH = ['score delta equals the dictionary weight difference', 'other model fields unchanged', 'record accepted iff one weight per boundary']


def jobs(tier, seed):
    js = []
    for name in sorted(EDITS):
        for n in range(1, (3 if tier == 'quick' else 5) + 1):
            js.append({'name': 'edit/%s/n%d' % (name, n), 'kind': 'edit', 'edit': name, 'n': n})
    for nch in range(0, (3 if tier == 'quick' else 4) + 1):
        for nw in range(0, (5 if tier == 'quick' else 6) + 1):
            js.append({'name': 'record/%d/%d' % (nch, nw), 'kind': 'record', 'nch': nch, 'nw': nw})
    return js


def build_pair(e, prog, shape, new_words):
    ms = P.fill_model(e, shape)
    model = P.build_model(e, prog, ms)
    mcell = Cell(model)
    # the edited model: built from the same parts, then replace_dictionary through the public API
    model2 = P.build_model(e, prog, ms)
    m2 = Cell(model2)
    new = []
    recs = []
    for i, wd in enumerate(new_words):
        ws = [P.sym_i32(e, 'n%d_%d' % (i, k)) for k in range(len(wd) + 1)]
        r = e.run(hlib.fn(prog, 'WordWeightRecord', 'new'), [mk_str(wd), P.vec_i32(ws), mk_str('c%d' % i)])
        if r.var != 'Ok':
            raise Panic('WordWeightRecord::new rejected a well-formed record')
        recs.append(r.f[0].v); new.append((wd, ws))
    before = deep_clone(model2)
    S.call(e, prog, 'Model', 'replace_dictionary', [Ref(m2), Seq(recs)])
    # frame condition: every field of ModelData except dict_model is unchanged
    md_old = before.f[0].v; md_new = m2.v.f[0].v
    same = True
    names = md_old.names or prog.src.structs['ModelData']
    for nm, a, b in zip(names, md_old.f, md_new.f):
        if nm == 'dict_model':
            continue
        same = b_and(same, values_eq(e, a.v, b.v))
    # dictionary() returns what was set
    got = S.seq_vals(S.call(e, prog, 'Model', 'dictionary', [Ref(m2)]))
    okd = len(got) == len(new)
    if okd:
        for rec, (wd, ws) in zip(got, new):
            rc = Cell(rec.c.v if isinstance(rec, Ref) else rec)
            okd = b_and(okd, values_eq(e, S.call(e, prog, 'WordWeightRecord', 'get_word', [Ref(rc)]), mk_str(wd)))
            gw = S.seq_vals(S.call(e, prog, 'WordWeightRecord', 'get_weights', [Ref(rc)]))
            okd = b_and(okd, len(gw) == len(ws))
            for x, y in zip(gw, ws):
                okd = b_and(okd, e.binop('Eq', x, y))
    p1 = P.new_predictor(e, prog, mcell.v, False)
    p2 = P.new_predictor(e, prog, m2.v, False)
    if p1.var != 'Ok' or p2.var != 'Ok':
        raise Panic('Predictor::new rejected a well-formed model')
    return ms, new, Cell(p1.f[0].v), Cell(p2.f[0].v), same, okd


def make(e, progs, job):
    prog = progs['core']
    st = {}

    def harness_edit(e):
        shape, new_words = EDITS[job['edit']]
        ms, new, p1, p2, same, okd = e.memo(('pair', job['edit']), lambda: build_pair(e, prog, shape, new_words))
        st['ms'] = ms; st['new'] = new
        e.check(same, 'other model fields unchanged')
        e.check(okd, 'dictionary() returns exactly the records that were set')
        alpha = P.pattern_alphabet(shape)
        for wd in new_words:
            for ch in wd:
                if ch not in alpha:
                    alpha += ch
        ss = S.sym_string(e, 'x', job['n'], alpha, exclude='\0')
        st['s'] = ss
        scores = []
        for pc in (p1, p2):
            r = S.new_sentence(e, prog, 'raw', hlib.build_str(e, ss.chars))
            cell = Cell(r.f[0].v)
            P.prepare_types(e, prog, cell, shape)
            S.call(e, prog, 'Predictor', 'predict', [Ref(pc), Ref(cell)])
            scores.append(S.seq_vals(S.call(e, prog, 'Sentence', 'boundary_scores', [Ref(cell)])))
        n = job['n']
        # oracle delta
        delta = [Int(0, 32, True)] * (n - 1)
        for sign, entries in ((1, new), (-1, ms.dict)):
            for wd, ws in entries:
                pat = [Int(ord(ch), 32) for ch in wd]
                m = len(wd)
                for end in P.occurrences(e, pat, ss.chars):
                    for k, wv in enumerate(ws):
                        b = end - 1 - m + k
                        if 0 <= b <= n - 2:
                            delta[b] = e.binop('Add' if sign > 0 else 'Sub', delta[b], wv)
        okk = len(scores[0]) == n - 1 and len(scores[1]) == n - 1
        if okk:
            for a, b, d in zip(scores[0], scores[1], delta):
                okk = b_and(okk, e.binop('Eq', e.binop('Sub', b, a), d))
        e.check(okk, 'score delta equals the dictionary weight difference')

    def harness_record(e):
        ss = S.sym_string(e, 'w', job['nch'], '', exclude='')
        st['s'] = ss
        ws = [P.sym_i32(e, 'v%d' % k, -(1 << 31), (1 << 31) - 1) for k in range(job['nw'])]
        r = e.run(hlib.fn(prog, 'WordWeightRecord', 'new'), [hlib.build_str(e, ss.chars), P.vec_i32(ws), mk_str('')])
        e.check((r.var == 'Ok') == (job['nw'] == job['nch'] + 1), 'record accepted iff one weight per boundary')

    def describe(m):
        if job['kind'] == 'record':
            return {'property': ID, 'job': job, 'ops': [{'op': 'word_weight_record', 'word': st['s'].py(m), 'weights': [0] * job['nw'], 'comment': ''}]}
        ms = st['ms']
        text = st['s'].py(m)
        mj = P.model_json(ms, m)
        mj2 = dict(mj)
        mj2['dict'] = [{'word': wd, 'weights': [P.signed32(m.eval(x.t, model_completion=True).as_long()) for x in ws], 'comment': ''} for wd, ws in st['new']]
        ops = []
        for mid, d in (('m1', mj), ('m2', mj2)):
            ops += [{'op': 'model', 'id': mid, 'data': d}, {'op': 'predictor', 'id': 'p' + mid, 'model': mid, 'tags': False},
                    {'op': 'sentence', 'id': 's' + mid, 'kind': 'raw', 'text': text}, {'op': 'predict', 's': 's' + mid, 'p': 'p' + mid}, {'op': 'observe', 's': 's' + mid}]
        return {'property': ID, 'job': job, 'text': text, 'model_old': mj, 'model_new': mj2, 'ops': ops}

    def sample():
        if e.solver is None or 's' not in st or e._check() != z3.sat:
            return None
        return {'job': job['name'], 'text_or_word': st['s'].py(e.solver.model())}
    e.sample = sample
    return (harness_edit if job['kind'] == 'edit' else harness_record), describe


def role(v):
    d = v.get('data') or {}
    job = d.get('job', {})
    msg = v['msg']
    if v['kind'] != 'assert' or msg.startswith('MIR assert'):
        return 'panic:%s:%s:%s' % (hlib.panic_site(v), hlib.panic_kind(msg), job.get('edit', job.get('kind')))
    return '%s:%s' % (msg, job.get('edit', job.get('kind')))


def confirm(sc, replay):
    res = replay.run(sc['ops'])
    job = sc['job']
    if job['kind'] == 'record':
        r = res[0]
        bad = ('ok' in r) != (job['nw'] == job['nch'] + 1) or 'panic' in r
        return bad, {'native': r}
    for r in res:
        if isinstance(r, dict) and ('panic' in r or 'err' in r):
            return True, {'native': r}
    s1 = res[4]['scores']; s2 = res[9]['scores']
    w1 = P.concrete_scores(sc['model_old'], sc['text']); w2 = P.concrete_scores(sc['model_new'], sc['text'])
    bad = [b - a for a, b in zip(s1, s2)] != [b - a for a, b in zip(w1, w2)]
    return bad, {'native_delta': [b - a for a, b in zip(s1, s2)], 'oracle_delta': [b - a for a, b in zip(w1, w2)]}
