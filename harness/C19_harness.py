"""C19 — dictionary edits act as documented; dump and replace through the model tool are lossless; WordWeightRecord length check.

Decided: Model::replace_dictionary / Model::dictionary / WordWeightRecord::new and the score delta through the real predictor (library part);
main() of manipulate_model (--dump-dict, then --replace-dict with the unmodified dump) over a contract model of the csv crate (m_csv.py: csv-core's
writer quoting rules and reader NFA, validated against the real crate) and zstd as identity on the model stream.
"""
import z3

from values import *
from engine import b_and
import hlib
import sentlib as S
import predlib as P
from models.m_core import values_eq

ID = 'C19'
PROGRAMS = {'core': dict(crate='vaporetto', features=['train', 'kytea']),
            'tool': dict(crate='manipulate_model', target='bin', bin_name='manipulate_model', extra=[dict(crate='vaporetto')])}
UNIT_CAP = 200
BUDGET_S = {'quick': 600, 'thorough': 1200}      # wall-clock safety caps (exceeding one is reported as inconclusive); typical quick runs take 1-200 s

# (base shape, new dictionary words)
EDITS = {
    'replace-same-words': ({'cw': 2, 'tw': 1, 'char': ['a'], 'dict': ['a', 'ab']}, ['a', 'ab']),
    'add-remove': ({'cw': 2, 'tw': 1, 'char': ['ba'], 'dict': ['a', 'ba']}, ['ba', 'b', 'aba']),
    'empty-to-some': ({'cw': 1, 'tw': 1, 'char': ['a']}, ['a', 'あa']),
    'some-to-empty': ({'cw': 3, 'tw': 2, 'type': ['R'], 'dict': ['a', 'ab']}, []),
    'word=ngram': ({'cw': 2, 'tw': 1, 'char': ['ab'], 'dict': ['b']}, ['ab']),
}
BOUNDS = {
    'quick': {'edits': sorted(EDITS), 'text_chars': '1..3', 'weights': 'old and new dictionary weights: every signed 16-bit value',
              'record check': 'words of 0..3 symbolic characters x 0..5 weights',
              'model tool': 'dictionaries of 1 word (0..2 characters, comment 0..1 characters) and 2 words (1 character each) over {comma, quote, #, space, LF, CR, a, あ, '
                            'any other scalar value (symbolic)}; weights from four patterns incl. i32::MIN/MAX; hand-written CSV records with 1..2-character words and '
                            '1..4 weights (mismatching) or an unparsable weight'},
    'thorough': {'edits': sorted(EDITS), 'text_chars': '1..5', 'weights': 'signed 16-bit', 'record check': 'words of 0..4 symbolic characters x 0..6 weights',
                 'model tool': 'as quick plus 1 word of 2 characters with a comment, and 2 words of 2 characters over {comma, quote, #, LF, any other value}'},
}
OUTSIDE = ('the csv crate itself is replaced by a contract model (writer: QuoteStyle::Necessary of csv-core; reader: transcription of csv-core 0.1.13\'s NFA with the '
           'ReaderBuilder options the code sets; serde maps flat String structs by header name) and zstd by the identity on the model stream: defects inside those '
           'crates, clap parsing, real files and compression are not decided; dictionaries of more than two words, words longer than two characters; '
           'edits outside the catalogue; longer texts; 32-bit dictionary weights in the score-delta clause (sums are kept inside i32 by the i16 bound)')
EXPLANATION = ('Model::replace_dictionary, Model::dictionary, WordWeightRecord::new and two predictors (before/after the edit) are executed symbolically '
               '(MIR) in one path on the same symbolic text; z3 decides that the score difference at every boundary equals the sum over occurrences of '
               '(new - old) dictionary weights, that every other model field is unchanged, that dictionary() returns exactly the records that were set, '
               'and that a record is accepted iff it has one weight per boundary of the word.  main() of manipulate_model (MIR of the bin crate) is executed '
               'twice in one path over an in-memory file system: --dump-dict, then --replace-dict with the unmodified dump and --model-out; z3/structural reasoning '
               'decides that the written model stream equals the input stream element by element for CSV-hostile symbolic words and comments, and that a CSV record '
               'with a mismatching weight count (or an unparsable weight) makes the tool fail without writing a model.')
ASSUMPTIONS = ['daachorse contract model', 'std container models of mirsym', 'dictionary weights within i16 for the score-delta clause',
               'csv crate contract model (validated against the real crate on hostile records)', 'zstd encoder/decoder are inverse (identity on the stream)',
               'clap delivers the paths as given; the file system is an in-memory map']
MUST_REACH = ['score delta equals the dictionary weight difference', 'other model fields unchanged', 'record accepted iff one weight per boundary',
              'dump then replace reproduces the model', 'tool exits successfully', 'mismatching record is rejected by the tool']

TOOL_CLASSES = ',"# \n\raあ'        # CSV-hostile characters; plus "any other scalar value" (symbolic)
# incl. values that a round trip through f32/f64 text or a narrower integer would not preserve (2^24+1, 2^31-1, -10^8-1)
WEIGHT_PATTERNS = [[0, 0, 0], [-1, 5, -32768], [2147483647, -2147483648, 7], [16777217, -100000001, 33554433], [2147483583, -2147483521, 65537]]


def jobs(tier, seed):
    js = []
    for name in sorted(EDITS):
        for n in range(1, (3 if tier == 'quick' else 5) + 1):
            js.append({'name': 'edit/%s/n%d' % (name, n), 'kind': 'edit', 'edit': name, 'n': n})
    for nch in range(0, (3 if tier == 'quick' else 4) + 1):
        for nw in range(0, (5 if tier == 'quick' else 6) + 1):
            js.append({'name': 'record/%d/%d' % (nch, nw), 'kind': 'record', 'nch': nch, 'nw': nw})
    # the model tool: dump the dictionary, replace it with the unmodified dump
    for nwords in (1, 2):
        for wl in ((0, 1, 2) if nwords == 1 else (1,)):
            for cl in ((0, 1) if nwords == 1 and wl < 2 else (0,)):
                js.append({'name': 'tool/w%d/l%d/c%d' % (nwords, wl, cl), 'kind': 'tool', 'prog': 'tool', 'nwords': nwords, 'wl': wl, 'cl': cl})
    if tier != 'quick':
        js.append({'name': 'tool/w1/l2/c1', 'kind': 'tool', 'prog': 'tool', 'nwords': 1, 'wl': 2, 'cl': 1})
        js.append({'name': 'tool/w2/l2/c0', 'kind': 'tool', 'prog': 'tool', 'nwords': 2, 'wl': 2, 'cl': 0, 'classes': ',"#\n'})
    for nch in (1, 2):
        for nw in (1, 2, 3, 4):
            if nw != nch + 1:
                js.append({'name': 'tool-bad/%d/%d' % (nch, nw), 'kind': 'tool-bad', 'prog': 'tool', 'nch': nch, 'nw': nw})
    js.append({'name': 'tool-bad/unparsable', 'kind': 'tool-bad', 'prog': 'tool', 'nch': 1, 'nw': 2, 'garbage': True})
    return js


def build_pair(e, prog, shape, new_words):
    ms = P.fill_model(e, shape)
    model = P.build_model(e, prog, ms)
    mcell = Cell(model)
    # the edited model: built from the same parts, then replace_dictionary through the public API
    model2 = P.build_model(e, prog, ms)
    m2 = Cell(model2)
    new = []
    recs = []
    for i, wd in enumerate(new_words):
        ws = [P.sym_i32(e, 'n%d_%d' % (i, k)) for k in range(len(wd) + 1)]
        r = e.run(hlib.fn(prog, 'WordWeightRecord', 'new'), [mk_str(wd), P.vec_i32(ws), mk_str('c%d' % i)])
        if r.var != 'Ok':
            raise Panic('WordWeightRecord::new rejected a well-formed record')
        recs.append(r.f[0].v); new.append((wd, ws))
    before = deep_clone(model2)
    S.call(e, prog, 'Model', 'replace_dictionary', [Ref(m2), Seq(recs)])
    # frame condition: every field of ModelData except dict_model is unchanged
    md_old = before.f[0].v; md_new = m2.v.f[0].v
    same = True
    names = md_old.names or prog.src.structs['ModelData']
    for nm, a, b in zip(names, md_old.f, md_new.f):
        if nm == 'dict_model':
            continue
        same = b_and(same, values_eq(e, a.v, b.v))
    # dictionary() returns what was set
    got = S.seq_vals(S.call(e, prog, 'Model', 'dictionary', [Ref(m2)]))
    okd = len(got) == len(new)
    if okd:
        for rec, (wd, ws) in zip(got, new):
            rc = Cell(rec.c.v if isinstance(rec, Ref) else rec)
            okd = b_and(okd, values_eq(e, S.call(e, prog, 'WordWeightRecord', 'get_word', [Ref(rc)]), mk_str(wd)))
            gw = S.seq_vals(S.call(e, prog, 'WordWeightRecord', 'get_weights', [Ref(rc)]))
            okd = b_and(okd, len(gw) == len(ws))
            for x, y in zip(gw, ws):
                okd = b_and(okd, e.binop('Eq', x, y))
    p1 = P.new_predictor(e, prog, mcell.v, False)
    p2 = P.new_predictor(e, prog, m2.v, False)
    if p1.var != 'Ok' or p2.var != 'Ok':
        raise Panic('Predictor::new rejected a well-formed model')
    return ms, new, Cell(p1.f[0].v), Cell(p2.f[0].v), same, okd


TOOL_SHAPE = {'cw': 1, 'tw': 1, 'char': ['a']}


def tool_args(prog, model_in, model_out=None, dump=None, replace=None):
    def path(n):
        return Opaque('path', rt='PathBuf', name=n)

    def opt(n):
        return none() if n is None else some(path(n))
    return P.mk_struct(prog, 'Args', model_in=path(model_in), model_out=opt(model_out), dump_dict=opt(dump), replace_dict=opt(replace), zstd_workers=Int(0, 32))


def tool_model(e, prog, records):
    """serialised model stream whose dictionary holds `records` = [(word Str, [weights python ints], comment Str)]"""
    ms = P.fill_model(e, TOOL_SHAPE, concrete={'c0_0': 3, 'c0_1': -2, 'bias': 1})
    model = P.build_model(e, prog, ms)
    md = model.f[0].v
    recs = []
    for word, ws, comment in records:
        recs.append(P.mk_struct(prog, 'WordWeightRecord', word=word, weights=P.vec_i32([Int(w & 0xFFFFFFFF, 32, True) for w in ws]), comment=comment))
    hlib.field(md, 'dict_model').v = P.mk_tuple_struct('DictModel', Seq(recs))
    r = S.call(e, prog, 'Model', 'to_vec', [Ref(Cell(model))])
    if r.var != 'Ok':
        raise Panic('Model::to_vec failed on a well-formed model')
    from models.m_seq import seq_values
    return list(seq_values(r.f[0].v))


def make_tool(e, progs, job, st):
    prog = progs['tool']
    import C07_harness

    def harness(e):
        if job['kind'] == 'tool':
            recs = []; syms = []
            for k in range(job['nwords']):
                w = S.sym_string(e, 'w%d_' % k, job['wl'], job.get('classes', TOOL_CLASSES), exclude='\0')
                c = S.sym_string(e, 'c%d_' % k, job['cl'], job.get('classes', TOOL_CLASSES), exclude='\0')
                pat = WEIGHT_PATTERNS[e.choose(len(WEIGHT_PATTERNS))][:job['wl'] + 1]
                recs.append((hlib.build_str(e, w.chars), pat, hlib.build_str(e, c.chars)))
                syms.append((w, pat, c))
            st['recs'] = syms
            stream = tool_model(e, prog, recs)
            files = {'A': list(stream)}
            e.cli = {'files': files}
            e.cli['args'] = tool_args(prog, 'A', dump='D')
            r1 = e.call('main', [])
            e.check(r1.var == 'Ok', 'tool exits successfully')
            if r1.var != 'Ok':
                return
            st['csv'] = list(files.get('D', []))
            e.cli['args'] = tool_args(prog, 'A', model_out='B', replace='D')
            r2 = e.call('main', [])
            e.check(r2.var == 'Ok', 'tool exits successfully')
            if r2.var != 'Ok':
                return
            e.check('B' in files and C07_harness.elems_equal(e, files['B'], stream), 'dump then replace reproduces the model')
        else:
            w = S.sym_string(e, 'w', job['nch'], 'aあ', exclude='\0,"\n\r')
            st['recs'] = [(w, list(range(1, job['nw'] + 1)), None)]
            stream = tool_model(e, prog, [])
            wb = list(hlib.build_str(e, w.chars).b)
            wtxt = 'x 1' if job.get('garbage') else ' '.join(str(x) for x in range(1, job['nw'] + 1))
            csvb = [Int(x, 8) for x in b'word,weights,comment\n'] + wb + [Int(x, 8) for x in (',' + wtxt + ',\n').encode()]
            st['csv'] = csvb
            files = {'A': list(stream), 'D': csvb}
            e.cli = {'files': files, 'args': tool_args(prog, 'A', model_out='B', replace='D')}
            r = e.call('main', [])
            e.check(r.var == 'Err' and 'B' not in files, 'mismatching record is rejected by the tool')

    def describe(m):
        recs = []
        for w, pat, c in st.get('recs', []):
            recs.append([w.py(m), ' '.join(str(x) for x in pat), c.py(m) if c is not None else ''])
        csvt = None
        if st.get('csv') is not None:
            try:
                csvt = hlib.py_bytes(e, st['csv'], m).decode('utf-8', 'replace')
            except Exception:
                csvt = None
        mj = P.model_json(P.fill_model(e, TOOL_SHAPE, concrete={'c0_0': 3, 'c0_1': -2, 'bias': 1}), None)
        if job['kind'] == 'tool':
            mj['dict'] = [{'word': w_, 'weights': [int(x) for x in ws_.split(' ')], 'comment': c_} for w_, ws_, c_ in recs]
        return {'property': ID, 'job': job, 'records': recs, 'engine_csv': csvt, 'model': mj,
                'ops': [{'op': 'model', 'id': 'm', 'data': mj}, {'op': 'model_dump', 'model': 'm'}]}

    def sample():
        if e.solver is None or 'recs' not in st or e._check() != z3.sat:
            return None
        m = e.solver.model()
        return {'job': job['name'], 'words': [w.py(m) for w, _, _ in st['recs']]}
    e.sample = sample
    return harness, describe


def make(e, progs, job):
    st = {}
    if job['kind'] in ('tool', 'tool-bad'):
        return make_tool(e, progs, job, st)
    prog = progs['core']

    def harness_edit(e):
        shape, new_words = EDITS[job['edit']]
        ms, new, p1, p2, same, okd = e.memo(('pair', job['edit']), lambda: build_pair(e, prog, shape, new_words))
        st['ms'] = ms; st['new'] = new
        e.check(same, 'other model fields unchanged')
        e.check(okd, 'dictionary() returns exactly the records that were set')
        alpha = P.pattern_alphabet(shape)
        for wd in new_words:
            for ch in wd:
                if ch not in alpha:
                    alpha += ch
        ss = S.sym_string(e, 'x', job['n'], alpha, exclude='\0')
        st['s'] = ss
        scores = []
        for pc in (p1, p2):
            r = S.new_sentence(e, prog, 'raw', hlib.build_str(e, ss.chars))
            cell = Cell(r.f[0].v)
            P.prepare_types(e, prog, cell, shape)
            S.call(e, prog, 'Predictor', 'predict', [Ref(pc), Ref(cell)])
            scores.append(S.seq_vals(S.call(e, prog, 'Sentence', 'boundary_scores', [Ref(cell)])))
        n = job['n']
        # oracle delta
        delta = [Int(0, 32, True)] * (n - 1)
        for sign, entries in ((1, new), (-1, ms.dict)):
            for wd, ws in entries:
                pat = [Int(ord(ch), 32) for ch in wd]
                m = len(wd)
                for end in P.occurrences(e, pat, ss.chars):
                    for k, wv in enumerate(ws):
                        b = end - 1 - m + k
                        if 0 <= b <= n - 2:
                            delta[b] = e.binop('Add' if sign > 0 else 'Sub', delta[b], wv)
        okk = len(scores[0]) == n - 1 and len(scores[1]) == n - 1
        if okk:
            for a, b, d in zip(scores[0], scores[1], delta):
                okk = b_and(okk, e.binop('Eq', e.binop('Sub', b, a), d))
        e.check(okk, 'score delta equals the dictionary weight difference')

    def harness_record(e):
        ss = S.sym_string(e, 'w', job['nch'], '', exclude='')
        st['s'] = ss
        ws = [P.sym_i32(e, 'v%d' % k, -(1 << 31), (1 << 31) - 1) for k in range(job['nw'])]
        r = e.run(hlib.fn(prog, 'WordWeightRecord', 'new'), [hlib.build_str(e, ss.chars), P.vec_i32(ws), mk_str('')])
        e.check((r.var == 'Ok') == (job['nw'] == job['nch'] + 1), 'record accepted iff one weight per boundary')

    def describe(m):
        if job['kind'] == 'record':
            return {'property': ID, 'job': job, 'ops': [{'op': 'word_weight_record', 'word': st['s'].py(m), 'weights': [0] * job['nw'], 'comment': ''}]}
        ms = st['ms']
        text = st['s'].py(m)
        mj = P.model_json(ms, m)
        mj2 = dict(mj)
        mj2['dict'] = [{'word': wd, 'weights': [P.signed32(m.eval(x.t, model_completion=True).as_long()) for x in ws], 'comment': ''} for wd, ws in st['new']]
        ops = []
        for mid, d in (('m1', mj), ('m2', mj2)):
            ops += [{'op': 'model', 'id': mid, 'data': d}, {'op': 'predictor', 'id': 'p' + mid, 'model': mid, 'tags': False},
                    {'op': 'sentence', 'id': 's' + mid, 'kind': 'raw', 'text': text}, {'op': 'predict', 's': 's' + mid, 'p': 'p' + mid}, {'op': 'observe', 's': 's' + mid}]
        return {'property': ID, 'job': job, 'text': text, 'model_old': mj, 'model_new': mj2, 'ops': ops}

    def sample():
        if e.solver is None or 's' not in st or e._check() != z3.sat:
            return None
        return {'job': job['name'], 'text_or_word': st['s'].py(e.solver.model())}
    e.sample = sample
    return (harness_edit if job['kind'] == 'edit' else harness_record), describe


def role(v):
    d = v.get('data') or {}
    job = d.get('job', {})
    msg = v['msg']
    if v['kind'] != 'assert' or msg.startswith('MIR assert'):
        return 'panic:%s:%s:%s' % (hlib.panic_site(v), hlib.panic_kind(msg), job.get('edit', job.get('kind')))
    return '%s:%s' % (msg, job.get('edit', job.get('kind')))


def confirm_tool(sc, replay):
    """the real manipulate_model binary on real files (zstd frames written/decoded outside the tool)"""
    import os, shutil, subprocess, tempfile
    import C20_harness
    job = sc['job']
    res = replay.run(sc['ops'])
    data = bytes(res[-1]['bytes'])
    exe = C20_harness.build_cli('manipulate_model')
    d = tempfile.mkdtemp(prefix='vpverif-mm.', dir='/var/tmp')
    try:
        a = os.path.join(d, 'a.zst'); b = os.path.join(d, 'b.zst'); dd = os.path.join(d, 'dict.csv')
        open(a, 'wb').write(C20_harness.zstd_raw_frame(data))
        bad = []
        if job['kind'] == 'tool':
            p1 = subprocess.run([exe, '--model-in', a, '--dump-dict', dd], stdout=subprocess.PIPE, stderr=subprocess.PIPE, timeout=60)
            if p1.returncode != 0:
                return True, {'native_violations': ['--dump-dict failed: ' + p1.stderr.decode('utf-8', 'replace')[-300:]]}
        else:
            open(dd, 'wb').write((sc.get('engine_csv') or '').encode('utf-8'))
        p2 = subprocess.run([exe, '--model-in', a, '--replace-dict', dd, '--model-out', b], stdout=subprocess.PIPE, stderr=subprocess.PIPE, timeout=60)
        if job['kind'] == 'tool-bad':
            if p2.returncode == 0:
                bad.append('a record whose weight count does not match the word length was accepted')
            return bool(bad), {'native_violations': bad, 'stderr': p2.stderr.decode('utf-8', 'replace')[-200:]}
        if p2.returncode != 0:
            return True, {'native_violations': ['--replace-dict with the unmodified dump failed: ' + p2.stderr.decode('utf-8', 'replace')[-300:]],
                          'csv': open(dd, 'rb').read().decode('utf-8', 'replace')}
        out = replay.run([{'op': 'zstd_decode', 'bytes': list(open(b, 'rb').read())}])[0]
        if 'bytes' not in out:
            return False, {'native': out}
        if bytes(out['bytes']) != data:
            bad.append('the model written after replacing the dictionary with its own dump differs from the input model (%d vs %d bytes)' % (len(out['bytes']), len(data)))
        return bool(bad), {'native_violations': bad, 'csv': open(dd, 'rb').read().decode('utf-8', 'replace')}
    finally:
        shutil.rmtree(d, ignore_errors=True)


def confirm(sc, replay):
    if sc['job']['kind'] in ('tool', 'tool-bad'):
        return confirm_tool(sc, replay)
    res = replay.run(sc['ops'])
    job = sc['job']
    if job['kind'] == 'record':
        r = res[0]
        bad = ('ok' in r) != (job['nw'] == job['nch'] + 1) or 'panic' in r
        return bad, {'native': r}
    for r in res:
        if isinstance(r, dict) and ('panic' in r or 'err' in r):
            return True, {'native': r}
    s1 = res[4]['scores']; s2 = res[9]['scores']
    w1 = P.concrete_scores(sc['model_old'], sc['text']); w2 = P.concrete_scores(sc['model_new'], sc['text'])
    bad = [b - a for a, b in zip(s1, s2)] != [b - a for a, b in zip(w1, w2)]
    return bad, {'native_delta': [b - a for a, b in zip(s1, s2)], 'oracle_delta': [b - a for a, b in zip(w1, w2)]}


# ---------------------------------------------------------------------------------------------
# engine / model validation
def validation_cases(tier, seed):
    """(a) the csv contract model against the real csv crate on hostile records and hostile raw inputs; (b) main() of the tool executed in the engine on
    concrete dictionaries against the real binary"""
    import random
    rnd = random.Random(seed + 1909)
    pool = [',', '"', '#', ' ', '\n', '\r', 'a', 'あ', 'b', '\t', '\\', "'", '𠀋']
    cs = []
    for k in range(24 if tier == 'quick' else 120):
        recs = []
        for _ in range(rnd.randint(1, 3)):
            recs.append([''.join(rnd.choice(pool) for _ in range(rnd.randint(0, 4))), ' '.join(str(rnd.randint(-9, 9)) for _ in range(rnd.randint(1, 3))),
                         ''.join(rnd.choice(pool) for _ in range(rnd.randint(0, 3)))])
        cs.append({'kind': 'csv', 'records': recs, 'comment': rnd.choice([None, None, ord('#')])})
    for k in range(16 if tier == 'quick' else 80):
        raw = 'word,weights,comment\n' + ''.join(rnd.choice(pool + [',', '\n', '"', 'x']) for _ in range(rnd.randint(0, 14)))
        cs.append({'kind': 'csvraw', 'input': raw, 'comment': rnd.choice([None, ord('#')])})
    return cs


def validate_case(e0, progs, replay, case):
    from models import m_csv
    cfg = m_csv.CsvCfg()
    cfg.comment = case.get('comment')

    class F:
        pass
    if case['kind'] == 'csv':
        f = F(); f.data = []
        w = m_csv.CsvWriter(f, m_csv.CsvCfg())
        w.header_written = True
        m_csv.write_record(None, w, [[Int(x, 8) for x in n.encode()] for n in ('word', 'weights', 'comment')])
        for r in case['records']:
            m_csv.write_record(None, w, [[Int(x, 8) for x in fld.encode('utf-8')] for fld in r])
        written = bytes(b.t for b in f.data)
        op = {'op': 'csv_roundtrip', 'records': case['records']}
    else:
        written = case['input'].encode('utf-8')
        op = {'op': 'csv_roundtrip', 'input': list(written)}
    if case.get('comment') is not None:
        op['comment'] = case['comment']
    nat = replay.run([op])[0]
    if 'panic' in nat or 'err' in nat:
        return {'case': case, 'native': nat}
    if case['kind'] == 'csv' and bytes(nat['written']) != written:
        return {'case': case, 'what': 'writer model differs from the csv crate', 'model': written.decode('utf-8', 'replace'), 'native': bytes(nat['written']).decode('utf-8', 'replace')}
    recs = m_csv.parse_records(None, cfg, [Int(x, 8) for x in written])
    hdr = recs[0] if recs else None
    got = []; error = None
    for rec in recs[1:]:
        if len(rec) != len(hdr):
            error = 'unequal'; break
        try:
            cols = [bytes(b.t for b in fld).decode('utf-8') for fld in rec]
        except UnicodeDecodeError:
            error = 'utf8'; break
        names = [bytes(b.t for b in h).decode('utf-8', 'replace') for h in hdr]
        if any(n not in names for n in ('word', 'weights', 'comment')):
            error = 'missing'; break
        got.append([cols[names.index(n)] for n in ('word', 'weights', 'comment')])
    if got != nat['records'] or (error is None) != (nat['error'] is None):
        return {'case': case, 'what': 'reader model differs from the csv crate', 'model': got, 'model_error': error, 'native': nat['records'], 'native_error': nat['error']}
    return None
