"""C13 — cargo feature flags change speed, never results: the same symbolic model and text are run through the MIR of
the default configuration and of a second feature configuration in one path; outputs must be equal."""
import z3

from values import *
from engine import b_and
import hlib
import sentlib as S
import predlib as P
from models.m_core import bytes_eq
import C01_harness
import C06_harness

ID = 'C13'
BASE = ['std', 'cache-type-score', 'fix-weight-length', 'tag-prediction', 'charwise-pma']
CONFIGS = {
    'no-cache-type-score': [f for f in BASE if f != 'cache-type-score'],
    'no-fix-weight-length': [f for f in BASE if f != 'fix-weight-length'],
    'bytewise-pma': [f for f in BASE if f != 'charwise-pma'],
    'no-tag-prediction': [f for f in BASE if f != 'tag-prediction'],
    'portable-simd': BASE + ['portable-simd'],
    'no-std': ['alloc'] + [f for f in BASE if f != 'std'],
    'minimal': ['alloc'],
}
PROGRAMS = {'core': dict(crate='vaporetto', features=BASE, no_default=True)}
for _k, _fs in CONFIGS.items():
    PROGRAMS[_k] = dict(crate='vaporetto', features=_fs, no_default=True)
UNIT_CAP = 150
BUDGET_S = {'quick': 600, 'thorough': 1200}      # wall-clock safety caps (exceeding one is reported as inconclusive); typical quick runs take 1-200 s

DEEP = {'no-cache-type-score': ('t2-cache', 't2-nested'), 'no-fix-weight-length': ('c4-fixed8', 'c5-var'), 'bytewise-pma': ('c2-suffix',),
        'portable-simd': ('c4-fixed8',), 'no-std': ('c2-suffix',), 'minimal': ('c4-fixed8', 't2-nested'), 'no-tag-prediction': ('c2-suffix',)}
SHAPES = {k: C01_harness.SHAPES[k] for k in ('c2-suffix', 'c4-fixed8', 'c5-var', 't2-cache', 'mix', 'c2-mb', 't4-nocache', 't2-nested')}
TAG_SHAPES = {k: C06_harness.SHAPES[k] for k in ('t2-two', 't3-mb')}
BOUNDS = {
    'quick': {'configurations': sorted(CONFIGS), 'against': 'default features', 'shapes': sorted(SHAPES) + sorted(TAG_SHAPES), 'text': '1..2 symbolic characters for every configuration x shape, 3 for the shapes that exercise the deviating feature',
              'weights': 'symbolic i16'},
    'thorough': {'configurations': sorted(CONFIGS), 'against': 'default features', 'shapes': sorted(SHAPES) + sorted(TAG_SHAPES), 'text': '1..4 (1..3 for tag shapes)', 'weights': 'symbolic i16'},
}
OUTSIDE = ('feature subsets other than the listed single-feature deviations, portable-simd, no-std and the minimal (alloc only) configuration; that daachorse\'s charwise and bytewise '
           'automata agree (contract model used for both); real SIMD code generation (Simd<i32,8> is modelled lane-wise); longer texts')
EXPLANATION = ('The MIR of vaporetto is dumped once per feature configuration; Predictor::new + predict (+ fill_tags where both sides compile tag prediction) of the default '
               'configuration and of a second configuration are executed symbolically on the same symbolic model and text inside one path, and z3 decides that scores, '
               'labels and tags are identical.')
ASSUMPTIONS = ['daachorse contract model for both automaton flavours', 'Simd<i32, 8> operations are lane-wise wrapping operations', 'std container models of mirsym', 'weights within i16']
MUST_REACH = ['configurations agree on scores and labels', 'configurations agree on tags']


def jobs(tier, seed):
    js = []
    for cfg in sorted(CONFIGS):
        for name in sorted(SHAPES):
            for n in range(1, (3 if tier == 'quick' else 4) + 1):
                if tier == 'quick' and n == 3 and name not in DEEP.get(cfg, ()):
                    continue
                js.append({'name': '%s/%s/n%d' % (cfg, name, n), 'cfg': cfg, 'shape': name, 'tags': False, 'n': n})
        if cfg in ('no-cache-type-score', 'minimal'):
            # type window 3: default side = real add_scores on the specification-given 8^6 table (see C01 cache3-spec-table), other side = automaton scorer
            for n in range(1, (3 if tier == 'quick' else 4) + 1):
                js.append({'name': '%s/cache3-spec-table/n%d' % (cfg, n), 'cfg': cfg, 'shape': 'cache3-spec-table', 'tags': False, 'n': n, 'cache3': True})
        if 'tag-prediction' in CONFIGS[cfg]:
            for name in sorted(TAG_SHAPES):
                for n in range(1, (2 if tier == 'quick' else 3) + 1):
                    js.append({'name': '%s/%s/n%d' % (cfg, name, n), 'cfg': cfg, 'shape': name, 'tags': True, 'n': n})
    js.sort(key=lambda j: -j['n'])
    return js


def build(e, prog, shape, tags):
    e.use(prog)
    ms = P.fill_model(e, shape)
    model = P.build_model(e, prog, ms)
    r = P.new_predictor(e, prog, model, tags)
    if r.var != 'Ok':
        raise Panic('Predictor::new rejected a well-formed model')
    return ms, Cell(r.f[0].v)


def make(e, progs, job):
    pa = progs['core']; pb = progs[job['cfg']]
    shape = C01_harness.CACHE3_SHAPES[job['shape']] if job.get('cache3') else (TAG_SHAPES if job['tags'] else SHAPES)[job['shape']]
    tags = job['tags']
    st = {}

    def harness(e):
        e.use(pa)
        if job.get('cache3'):
            ms, p1 = e.memo(('A3', job['shape']), lambda: C01_harness.build_cache3(e, pa, shape))
        else:
            ms, p1 = e.memo(('A', job['shape'], tags), lambda: build(e, pa, shape, tags))
        ms2, p2 = e.memo((job['cfg'], job['shape'], tags), lambda: build(e, pb, shape, tags))
        st['ms'] = ms
        e.use(pa)
        ss = S.sym_string(e, 'x', job['n'], P.pattern_alphabet(shape), exclude='\0')
        st['s'] = ss
        outs = []
        conc_types = P.uses_type_cache(shape)
        for prog, pc in ((pa, p1), (pb, p2)):
            e.use(prog)
            r = S.new_sentence(e, prog, 'raw', hlib.build_str(e, ss.chars))
            cell = Cell(r.f[0].v)
            if conc_types:
                P.concretize_types(e, prog, cell)
            S.call(e, prog, 'Predictor', 'predict', [Ref(pc), Ref(cell)])
            if tags:
                S.call(e, prog, 'Sentence', 'fill_tags', [Ref(cell)])
            scores = S.seq_vals(S.call(e, prog, 'Sentence', 'boundary_scores', [Ref(cell)]))
            labels = S.seq_vals(S.call(e, prog, 'Sentence', 'boundaries', [Ref(cell)]))
            tg = S.seq_vals(S.call(e, prog, 'Sentence', 'tags', [Ref(cell)]))
            nt = S.call(e, prog, 'Sentence', 'n_tags', [Ref(cell)])
            outs.append((scores, labels, tg, nt))
        e.use(pa)
        (s1, l1, t1, n1), (s2, l2, t2, n2) = outs
        okk = len(s1) == len(s2) and len(l1) == len(l2)
        if okk:
            for a, b in zip(s1 + l1, s2 + l2):
                okk = b_and(okk, e.binop('Eq', a, b))
        e.check(okk, 'configurations agree on scores and labels')
        if tags:
            okt = len(t1) == len(t2) and n1.conc() == n2.conc()
            if okt:
                for a, b in zip(t1, t2):
                    ga, gb = S.opt_tag_bytes(a), S.opt_tag_bytes(b)
                    if (ga is None) != (gb is None):
                        okt = False
                    elif ga is not None:
                        okt = b_and(okt, bytes_eq(e, ga, gb))
            e.check(okt, 'configurations agree on tags')
        else:
            e.check(True, 'configurations agree on tags') if False else None

    def describe(m):
        text = st['s'].py(m) if 's' in st else 'a'
        mj = P.model_json(st['ms'], m)
        return {'property': ID, 'job': job, 'text': text, 'model': mj, 'features_b': CONFIGS[job['cfg']]}

    def sample():
        if e.solver is None or 's' not in st or e._check() != z3.sat:
            return None
        return {'job': job['name'], 'text': st['s'].py(e.solver.model())}
    e.sample = sample
    return harness, describe


def role(v):
    d = v.get('data') or {}
    job = d.get('job', {})
    msg = v['msg']
    if v['kind'] != 'assert' or msg.startswith('MIR assert'):
        return 'panic:%s:%s:%s:%s' % (hlib.panic_site(v), hlib.panic_kind(msg), job.get('cfg'), job.get('shape'))
    return '%s:%s:%s' % (msg, job.get('cfg'), job.get('shape'))


def confirm(sc, replay):
    """native confirmation: build the replay driver's sibling with the second feature set and compare outputs"""
    import cfgreplay
    return cfgreplay.compare(sc['model'], sc['text'], sc['job'].get('tags', False), sc['features_b'])
