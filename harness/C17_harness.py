"""C17 — KyTea model conversion preserves the word-segmentation model; truncated files are rejected."""
import struct

import z3

from values import *
from engine import b_and
import hlib
import sentlib as S
import predlib as P
from models.m_io import Reader
from models.m_seq import seq_values
from models.m_str import str_bytes

ID = 'C17'
PROGRAMS = {'core': dict(crate='vaporetto', features=['train', 'kytea'])}
UNIT_CAP = 100
BUDGET_S = {'quick': 600, 'thorough': 1200}      # wall-clock safety caps (exceeding one is reported as inconclusive); typical quick runs take 1-200 s

# file shapes: character map, windows, n-gram tries, dictionaries with membership masks; every weight, the bias and the masks are symbolic
SHAPES = {
    'small': {'chars': 'abあ', 'char_w': 2, 'type_w': 1, 'dict_n': 2, 'char_ngrams': ['a', 'ab', 'あ'], 'type_ngrams': ['H', 'R'], 'n_dicts': 2, 'words': ['a', 'abあ'], 'extra_weights': 1},
    'deep': {'chars': 'abc', 'char_w': 3, 'type_w': 2, 'dict_n': 1, 'char_ngrams': ['abc', 'b', 'bc'], 'type_ngrams': ['KH', 'O', 'DD'], 'n_dicts': 3, 'words': ['b', 'ab'], 'extra_weights': 0},
    # 'ab' is a non-entry state that inherits the output of entry 'b' (entry 'abc' has the non-entry prefix 'ab'); same for words
    'inherit': {'chars': 'abc', 'char_w': 2, 'type_w': 2, 'dict_n': 2, 'char_ngrams': ['b', 'abc'], 'type_ngrams': ['H', 'KKH'], 'n_dicts': 1, 'words': ['b', 'abc'], 'extra_weights': 0},
    # type window larger than the char window (each kind of n-gram must be cut to ITS window)
    'typewide': {'chars': 'ab', 'char_w': 1, 'type_w': 3, 'dict_n': 1, 'char_ngrams': ['a', 'ab'], 'type_ngrams': ['K', 'HK', 'R'], 'n_dicts': 1, 'words': ['a'], 'extra_weights': 1},
    'nodict': {'chars': 'a', 'char_w': 1, 'type_w': 1, 'dict_n': 4, 'char_ngrams': ['a'], 'type_ngrams': ['T'], 'n_dicts': 0, 'words': [], 'extra_weights': 2},
}
BOUNDS = {
    'quick': {'file shapes': sorted(SHAPES) + ['4 random shapes drawn from VERIF_SEED'], 'symbolic': 'every n-gram weight (i16), the bias, every dictionary weight and every dictionary membership mask', 'truncation': 'every cut point of every shape file (byte exact)'},
    'thorough': {'file shapes': sorted(SHAPES) + ['40 random shapes drawn from VERIF_SEED (1..4 characters, windows 1..3 / 1..2, up to 4 char and 3 type n-grams, 0..3 dictionaries, up to 3 words)'],
                 'symbolic': 'as quick', 'truncation': 'every cut point'},
}
OUTSIDE = ('file shapes outside the catalogue (more n-grams/dictionaries, tag slots with linear models); malformed files other than truncations (e.g. character index 0, n-grams longer than '
           '2*window+1) are outside the property; trailing bytes the reader never consumes')
EXPLANATION = ('KyteaModel::read with all Readable impls, Dictionary::{read, dump_items}, FeatureLookup::read and TryFrom<KyteaModel> for Model are executed symbolically (MIR) on a KyTea '
               'file written by the harness whose weights, bias and dictionary masks are symbolic bytes; z3 decides that the converted model holds exactly the file\'s n-grams with the '
               'first 2*W-len+1 weights, the type letters mapped to codes, the bias, the windows and per-word dictionary weights summed over the member dictionaries by length bucket; '
               'every proper prefix of the file must yield Err, never a panic.')
ASSUMPTIONS = ['std::io::BufRead contract (read_exact fails with UnexpectedEof on short input; read_line/read_until return what is there)', 'std container models of mirsym']
MUST_REACH = ['converted model equals the file contents', 'every truncated file is rejected', 'cover:word-in-two-dictionaries']


# ---------------------------------------------------------------------------------------------
# writing a KyTea binary model (as read by vaporetto/src/kytea_model.rs)

class W:
    def __init__(self):
        self.b = []

    def raw(self, bs):
        self.b.extend(Int(x, 8) for x in bs)

    def u8(self, v):
        self.b.append(v if isinstance(v, Int) else Int(v, 8))

    def u16(self, v):
        self.raw(struct.pack('<H', v))

    def u32(self, v):
        self.raw(struct.pack('<I', v))

    def i32(self, v):
        self.raw(struct.pack('<i', v))

    def f64(self, v):
        self.raw(struct.pack('<d', v))

    def i16(self, v):
        if isinstance(v, Int):      # symbolic 16-bit value: two symbolic bytes
            if type(v.t) is int:
                self.raw(struct.pack('<H', v.t & 0xffff))
            else:
                self.b.append(Int(z3.Extract(7, 0, v.t), 8)); self.b.append(Int(z3.Extract(15, 8, v.t), 8))
        else:
            self.raw(struct.pack('<h', v))


def trie(keys):
    """states of the goto trie for the keys (lists of chars); returns list of dict(gotos, out)"""
    states = [{'gotos': {}, 'out': None}]
    for ki, key in enumerate(keys):
        cur = 0
        for ch in key:
            nxt = states[cur]['gotos'].get(ch)
            if nxt is None:
                nxt = len(states); states.append({'gotos': {}, 'out': None}); states[cur]['gotos'][ch] = nxt
            cur = nxt
        states[cur]['out'] = ki
    # Aho-Corasick completion as KyTea writes it: failure links, and every state lists its own entry first (if it is one) followed by the
    # outputs inherited along its failure chain — a state that is NOT an entry (is_branch = 0) can therefore carry outputs
    from collections import deque
    for st in states:
        st['fail'] = 0; st['outs'] = [] if st['out'] is None else [st['out']]
    dq = deque()
    for ch, nxt in states[0]['gotos'].items():
        dq.append(nxt)
    while dq:
        r = dq.popleft()
        for ch, nxt in states[r]['gotos'].items():
            dq.append(nxt)
            f = states[r]['fail']
            while f and ch not in states[f]['gotos']:
                f = states[f]['fail']
            cand = states[f]['gotos'].get(ch, 0)
            states[nxt]['fail'] = cand if cand != nxt else 0
            states[nxt]['outs'] = states[nxt]['outs'] + [o for o in states[states[nxt]['fail']]['outs'] if o not in states[nxt]['outs']]
    return states


def write_dictionary(w, cmap, keys, n_dicts, write_entry):
    w.u8(n_dicts)
    if not keys:
        w.u32(0)
        return
    states = trie(keys)
    w.u32(len(states))
    for st in states:
        w.u32(st['fail'])              # failure
        w.u32(len(st['gotos']))
        for ch, nxt in st['gotos'].items():
            w.u16(cmap.index(ch) + 1); w.u32(nxt)
        w.u32(len(st['outs']))
        for o in st['outs']:
            w.u32(o)
        w.u8(1 if st['out'] is not None else 0)
    w.u32(len(keys))
    for ki in range(len(keys)):
        write_entry(ki)


def write_file(e, sh, concrete=None):
    """-> (byte Int list, dict of the symbolic payload)"""
    def sym16(name):
        if concrete is not None:
            return Int(concrete(name) & 0xffff, 16, True)
        t = z3.BitVec(name, 16)
        return Int(t, 16, True)
    cmap = list(sh['chars']) + list('DRHTKO')
    w = W()
    pay = {'char': {}, 'type': {}, 'dict_vec': [], 'masks': {}, 'bias': None}
    w.raw(b'KyTea 0.4.7 B\n')
    w.u8(1); w.u8(1); w.u32(0)                 # do_ws, do_tags, n_tags
    w.u8(sh['char_w']); w.u8(3); w.u8(sh['type_w']); w.u8(3); w.u8(sh['dict_n']); w.u8(1)
    w.f64(0.001); w.u8(1)
    w.raw(''.join(cmap).encode('utf-8') + b'\0')
    # word segmentation model
    w.u32(2); w.u8(1); w.i32(1); w.i32(-1); w.u8(1); w.f64(1.0)
    w.u8(1)                                     # feature lookup active
    for kind, grams, W_ in (('char', sh['char_ngrams'], sh['char_w']), ('type', sh['type_ngrams'], sh['type_w'])):
        def entry(ki, kind=kind, grams=grams, W_=W_):
            g = grams[ki]
            n = 2 * W_ - len(g) + 1 + sh['extra_weights']
            ws = [sym16('%s%d_%d' % (kind[0], ki, k)) for k in range(n)]
            pay[kind][g] = ws
            w.u32(n)
            for x in ws:
                w.i16(x)
        write_dictionary(w, cmap, [list(g) for g in grams], 0, entry)
    w.u8(0); w.u32(0)                           # self dict: none
    nd = sh['n_dicts']
    dv = [sym16('dv%d' % k) for k in range(3 * sh['dict_n'] * nd)]
    pay['dict_vec'] = dv
    w.u32(len(dv))
    for x in dv:
        w.i16(x)
    bias = sym16('bias'); pay['bias'] = bias
    w.u32(1); w.i16(bias)
    w.u32(0); w.u32(0)                          # tag_dict_vec, tag_unk_vec
    # (no global tags: n_tags = 0)
    def word_entry(ki):
        wd = sh['words'][ki]
        w.u32(len(wd))
        for ch in wd:
            w.u16(cmap.index(ch) + 1)
        if concrete is not None:
            mk = Int(concrete('mask%d' % ki) & 0xff, 8)
        else:
            mk = Int(z3.BitVec('mask%d' % ki, 8), 8)
        pay['masks'][wd] = mk
        w.u8(mk)
    write_dictionary(w, cmap, [list(x) for x in sh['words']], nd, word_entry)
    w.u8(0); w.u32(0)                           # subword dictionary: none
    return w.b, pay


def sx(v):
    """i16 Int -> i32 term (sign extended)"""
    if type(v.t) is int:
        x = v.t - 0x10000 if v.t >= 0x8000 else v.t
        return Int(x, 32, True)
    return Int(z3.SignExt(16, v.t), 32, True)


def random_file_shape(rnd):
    """a KyTea file shape drawn from VERIF_SEED: characters, windows, unique n-grams over them, dictionaries and words"""
    chars = ''.join(rnd.sample('abcあ1ア人', rnd.randint(1, 4)))
    cw = rnd.randint(1, 3); tw = rnd.randint(1, 2)

    def grams(alpha, maxlen, k):
        out = []
        for _ in range(k):
            g = ''.join(rnd.choice(alpha) for _ in range(rnd.randint(1, maxlen)))
            if g not in out:
                out.append(g)
        return out
    return {'chars': chars, 'char_w': cw, 'type_w': tw, 'dict_n': rnd.randint(1, 4), 'char_ngrams': grams(chars, min(2 * cw, 3), rnd.randint(1, 4)),
            'type_ngrams': grams('HRKTDO', min(2 * tw, 2), rnd.randint(1, 3)), 'n_dicts': rnd.randint(0, 3), 'words': grams(chars, 4, rnd.randint(0, 3)),
            'extra_weights': rnd.randint(0, 2)}


def all_shapes(tier, seed):
    import random
    sh = dict(SHAPES)
    rnd = random.Random(seed * 17 + 5)
    for k in range(4 if tier == 'quick' else 40):
        d = random_file_shape(rnd)
        if d['n_dicts'] == 0:
            d['words'] = []
        sh['random%02d' % k] = d
    return sh


def jobs(tier, seed):
    js = []
    shs = all_shapes(tier, seed)
    for name in sorted(shs):
        js.append({'name': 'conv/%s' % name, 'kind': 'conv', 'shape': name, 'shape_def': shs[name]})
        js.append({'name': 'trunc/%s' % name, 'kind': 'trunc', 'shape': name, 'shape_def': shs[name]})
    js.append({'name': 'reference-file', 'kind': 'ref'})
    return js


def convert(e, prog, data):
    rdr = Reader(data)
    r = e.call('KyteaModel::read::<&mut Reader>', [Ref(Cell(rdr))])
    return r


def tables(model):
    md = model.f[0].v
    out = {'char': {}, 'type': {}, 'dict': {}}
    for d in seq_values(hlib.fval(md, 'char_ngram_model').f[0].v):
        out['char'][bytes(b.conc() for b in str_bytes(hlib.fval(d, 'ngram'))).decode('utf-8')] = seq_values(hlib.fval(d, 'weights'))
    for d in seq_values(hlib.fval(md, 'type_ngram_model').f[0].v):
        out['type'][tuple(b.conc() for b in seq_values(hlib.fval(d, 'ngram')))] = seq_values(hlib.fval(d, 'weights'))
    for d in seq_values(hlib.fval(md, 'dict_model').f[0].v):
        out['dict'][bytes(b.conc() for b in str_bytes(hlib.fval(d, 'word'))).decode('utf-8')] = seq_values(hlib.fval(d, 'weights'))
    out['bias'] = hlib.fval(md, 'bias'); out['cw'] = hlib.fval(md, 'char_window_size').conc(); out['tw'] = hlib.fval(md, 'type_window_size').conc()
    out['tag_models'] = len(seq_values(hlib.fval(md, 'tag_models')))
    return out


def make(e, progs, job):
    prog = progs['core']
    st = {}

    def harness(e):
        if job['kind'] == 'ref':
            data = [Int(b, 8) for b in open('/repo/resources/kytea-model.bin', 'rb').read()]
            r = convert(e, prog, data)
            e.check(r.var == 'Ok', 'reference file is read')
            if r.var == 'Ok':
                rm = e.call('<Model as TryFrom<KyteaModel>>::try_from', [r.f[0].v])
                e.check(rm.var == 'Ok', 'reference file is converted')
            return
        sh = job.get('shape_def') or SHAPES[job['shape']]
        data, pay = write_file(e, sh)
        st['data'] = data
        if job['kind'] == 'trunc':
            cut = e.choose(len(data))
            st['cut'] = cut
            r = convert(e, prog, data[:cut])
            e.check(r.var == 'Err', 'every truncated file is rejected')
            return
        r = convert(e, prog, data)
        if r.var != 'Ok':
            e.fail('a well-formed KyTea file is read')
            return
        rm = e.call('<Model as TryFrom<KyteaModel>>::try_from', [r.f[0].v])
        if rm.var != 'Ok':
            e.fail('a well-formed KyTea file is converted')
            return
        t = tables(rm.f[0].v)
        okk = t['cw'] == sh['char_w'] and t['tw'] == sh['type_w'] and t['tag_models'] == 0
        okk = b_and(okk, e.binop('Eq', t['bias'], sx(pay['bias'])))
        okk = b_and(okk, sorted(t['char']) == sorted(sh['char_ngrams']))
        for g, ws in pay['char'].items():
            got = t['char'].get(g)
            n = 2 * sh['char_w'] - len(g) + 1
            if got is None or len(got) != n:
                okk = False; continue
            for a, b in zip(got, ws[:n]):
                okk = b_and(okk, e.binop('Eq', a, sx(b)))
        want_types = {tuple(P.TYPE_CODE[c] for c in g): g for g in sh['type_ngrams']}
        okk = b_and(okk, sorted(t['type']) == sorted(want_types))
        for code, g in want_types.items():
            got = t['type'].get(code)
            n = 2 * sh['type_w'] - len(g) + 1
            if got is None or len(got) != n:
                okk = False; continue
            for a, b in zip(got, pay['type'][g][:n]):
                okk = b_and(okk, e.binop('Eq', a, sx(b)))
        okk = b_and(okk, sorted(t['dict']) == sorted(sh['words']))
        for wd in sh['words']:
            got = t['dict'].get(wd)
            if got is None or len(got) != len(wd) + 1:
                okk = False; continue
            idx = min(len(wd), sh['dict_n']) - 1
            mask = pay['masks'][wd]
            sums = [Int(0, 32, True)] * 3
            members = 0
            for j in range(sh['n_dicts']):
                bit = e.truth(e.binop('Eq', e.binop('BitAnd', e.binop('Shr', mask, Int(j, 8)), Int(1, 8)), Int(1, 8)))
                if bit:
                    members += 1
                    off = 3 * sh['dict_n'] * j + 3 * idx
                    sums = [e.binop('Add', sums[k], sx(pay['dict_vec'][off + k])) for k in range(3)]
            if members >= 2:
                e.cover('word-in-two-dictionaries')
            want = [sums[0]] + [sums[1]] * (len(wd) - 1) + [sums[2]]
            for a, b in zip(got, want):
                okk = b_and(okk, e.binop('Eq', a, b))
        e.check(okk, 'converted model equals the file contents')

    def describe(m):
        data = st.get('data')
        if data is None:
            return {'property': ID, 'job': job, 'ops': []}
        bs = [b.t if type(b.t) is int else m.eval(b.t, model_completion=True).as_long() for b in data]
        if job['kind'] == 'trunc':
            return {'property': ID, 'job': job, 'cut': st.get('cut'), 'ops': [{'op': 'kytea_prefix_scan', 'bytes': bs}]}
        return {'property': ID, 'job': job, 'ops': [{'op': 'kytea_convert', 'id': 'k', 'bytes': bs}], 'bytes': bs}

    def sample():
        return {'job': job['name'], 'file_bytes': len(st.get('data') or []), 'cut': st.get('cut')}
    e.sample = sample
    return harness, describe


def role(v):
    d = v.get('data') or {}
    job = d.get('job', {})
    msg = v['msg']
    if v['kind'] != 'assert' or msg.startswith('MIR assert'):
        return 'panic:%s:%s:%s' % (hlib.panic_site(v), hlib.panic_kind(msg), job.get('kind'))
    return '%s:%s' % (job.get('kind'), msg)


def py_convert(sh, vals):
    """python reference conversion from concrete payload values -> model json fragments"""
    pass


def confirm(sc, replay):
    res = replay.run(sc['ops'])
    r = res[-1] if res else {}
    if isinstance(r, dict) and 'panic' in r:
        return True, {'native': r}
    if sc['job']['kind'] == 'trunc':
        return bool(r.get('bad')), {'native': r}
    if sc['job']['kind'] == 'conv':
        if 'err' in r:
            return True, {'native': r}
        # recompute the expectation from the concrete file bytes with the python writer's layout
        sh = sc['job'].get('shape_def') or SHAPES[sc['job']['shape']]
        bs = sc['bytes']
        # re-derive the payload by writing the file with a recording callback
        names = {}
        from engine import Engine

        class Fake:
            pass
        cur = {'i': 0}
        data0, pay = write_file(None, sh, concrete=lambda name: 0)
        # positions of payload bytes are where a zero-filled file differs in layout: recover by writing with distinct markers
        marks = {}

        def marker(name):
            marks[name] = len(marks) + 1
            return marks[name]
        data1, pay1 = write_file(None, sh, concrete=marker)
        vals = {}
        # locate each 16-bit marker / 8-bit mask in data1 and read the same offsets from bs
        b1 = [x.t for x in data1]
        for name, mk in marks.items():
            width = 1 if name.startswith('mask') else 2
            pat = list(struct.pack('<H', mk)) if width == 2 else [mk & 0xff]
            for off in range(len(b1) - width + 1):
                if b1[off:off + width] == pat and [x.t for x in data0][off:off + width] == [0] * width:
                    raw = bs[off:off + width]
                    v_ = raw[0] | (raw[1] << 8) if width == 2 else raw[0]
                    if width == 2 and v_ >= 0x8000:
                        v_ -= 0x10000
                    vals[name] = v_
                    break
        mj = r.get('model', {})
        bad = []
        for ki, g in enumerate(sh['char_ngrams']):
            n = 2 * sh['char_w'] - len(g) + 1
            want = [vals.get('c%d_%d' % (ki, k)) for k in range(n)]
            got = [d['weights'] for d in mj.get('char_ngrams', []) if d['ngram'] == g]
            if not got or got[0] != want:
                bad.append('char n-gram %r: %r vs file %r' % (g, got, want))
        for ki, g in enumerate(sh['type_ngrams']):
            n = 2 * sh['type_w'] - len(g) + 1
            want = [vals.get('t%d_%d' % (ki, k)) for k in range(n)]
            code = [P.TYPE_CODE[c] for c in g]
            got = [d['weights'] for d in mj.get('type_ngrams', []) if d['ngram'] == code]
            if not got or got[0] != want:
                bad.append('type n-gram %r: %r vs file %r' % (g, got, want))
        if mj.get('bias') != vals.get('bias'):
            bad.append('bias')
        for ki, wd in enumerate(sh['words']):
            idx = min(len(wd), sh['dict_n']) - 1
            s3 = [0, 0, 0]
            for j in range(sh['n_dicts']):
                if (vals.get('mask%d' % ki, 0) >> j) & 1:
                    off = 3 * sh['dict_n'] * j + 3 * idx
                    for k in range(3):
                        s3[k] += vals.get('dv%d' % (off + k), 0)
            want = [s3[0]] + [s3[1]] * (len(wd) - 1) + [s3[2]]
            got = [d['weights'] for d in mj.get('dict', []) if d['word'] == wd]
            if not got or got[0] != want:
                bad.append('dictionary word %r: %r vs file %r' % (wd, got, want))
        # ... and nothing else: exactly the file's entries
        extra_c = sorted(d['ngram'] for d in mj.get('char_ngrams', []) if d['ngram'] not in sh['char_ngrams'])
        codes = [[P.TYPE_CODE[c] for c in g] for g in sh['type_ngrams']]
        extra_t = [d['ngram'] for d in mj.get('type_ngrams', []) if d['ngram'] not in codes]
        extra_w = sorted(d['word'] for d in mj.get('dict', []) if d['word'] not in sh['words'])
        if extra_c or extra_t or extra_w:
            bad.append('entries that are not in the file: char %r, type %r, words %r' % (extra_c, extra_t, extra_w))
        return bool(bad), {'native_violations': bad[:5]}
    return False, {'native': r}


def validate(progs, replay, seed, tier):
    """engine validation: the reference KyTea model of the repository converted by the engine and natively"""
    from engine import Engine
    prog = progs['core']
    e = Engine(prog)
    data = [Int(b, 8) for b in open('/repo/resources/kytea-model.bin', 'rb').read()]
    got = {}

    def h(e):
        r = convert(e, prog, data)
        rm = e.call('<Model as TryFrom<KyteaModel>>::try_from', [r.f[0].v])
        t = tables(rm.f[0].v)
        got['char'] = {k: [P.signed32(x.conc()) for x in v] for k, v in t['char'].items()}
        got['type'] = {k: [P.signed32(x.conc()) for x in v] for k, v in t['type'].items()}
        got['dict'] = {k: [P.signed32(x.conc()) for x in v] for k, v in t['dict'].items()}
        got['bias'] = P.signed32(t['bias'].conc())
    e.violations = []
    e.explore(h)
    nat = replay.run([{'op': 'kytea_convert', 'id': 'k', 'bytes': [b.t for b in data]}])[0]
    mism = []
    if e.violations or 'model' not in nat:
        mism.append({'engine': [v.msg for v in e.violations], 'native': nat})
    else:
        mj = nat['model']
        n_char = {d['ngram']: d['weights'] for d in mj['char_ngrams']}
        n_type = {tuple(d['ngram']): d['weights'] for d in mj['type_ngrams']}
        n_dict = {d['word']: d['weights'] for d in mj['dict']}
        if got.get('char') != n_char or got.get('type') != n_type or got.get('dict') != n_dict or got.get('bias') != mj['bias']:
            mism.append({'engine': got, 'native': mj})
    # shapes with concrete payload through both
    import random
    rnd = random.Random(seed + 5)
    runs = 1
    for name, sh in sorted(SHAPES.items()):
        vals = {}

        def conc(nm):
            if nm not in vals:
                vals[nm] = rnd.choice([0, 1, -1, 300, -32768, 32767, 3]) if not nm.startswith('mask') else rnd.randint(0, 7)
            return vals[nm]
        data2, _ = write_file(None, sh, concrete=conc)
        bs = [b.t for b in data2]
        natr = replay.run([{'op': 'kytea_convert', 'id': 'k', 'bytes': bs}, {'op': 'kytea_prefix_scan', 'bytes': bs}])
        sc = {'job': {'kind': 'conv', 'shape': name}, 'ops': [{'op': 'kytea_convert', 'id': 'k', 'bytes': bs}], 'bytes': bs}
        bad, detail = confirm(sc, replay)
        runs += 1
        if bad:
            mism.append({'shape': name, 'harness writer / python expectation disagrees with the native converter': detail})
        if natr[1].get('bad'):
            mism.append({'shape': name, 'native prefix scan of the harness file': natr[1]})
    return {'runs': runs, 'mismatches': mism}
