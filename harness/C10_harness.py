"""C10 — training uses exactly the annotated boundaries with the documented features.

The corpus texts, the configuration and the dictionary are enumerated (catalogue); the boundary labels of every corpus
sentence range over {NB, WB, Unknown}^(n-1) (nondeterministic choice, every vector explored).  The examples are observed
where they are handed to the learner (liblinear stub) and compared with the documented feature definition.
"""
import json

import z3

from values import *
import hlib
import sentlib as S
import trainlib as T
import predlib as P

ID = 'C10'
PROGRAMS = {'core': dict(crate='vaporetto', features=['train', 'kytea'])}
UNIT_CAP = 200
BUDGET_S = {'quick': 600, 'thorough': 1200}      # wall-clock safety caps (exceeding one is reported as inconclusive); typical quick runs take 1-200 s

CFGS_QUICK = [(0, 0, 0, 0), (1, 1, 1, 1), (2, 2, 2, 2), (2, 3, 1, 2), (1, 2, 3, 1), (3, 1, 1, 3), (3, 3, 3, 3), (0, 2, 2, 0)]
DICTS = {'none': ([], 4), 'a-ab': (['a', 'ab'], 1), 'words': (['b', 'ab', 'abc', 'あ'], 2)}
BOUNDS = {
    'quick': {'configurations (char window, char n, type window, type n)': CFGS_QUICK, 'corpora': ['ab-c', 'abc-ba', 'mixed', 'one-char'], 'dictionaries': sorted(DICTS),
              'labels': 'symbolic in {NB,WB,Unknown}^(n-1) for every corpus sentence (decided by the solver where the trainer and the learner boundary branch on them)'},
    'thorough': {'configurations': 'the quick list on every corpus and dictionary; all (cw, cn, tw, tn) in {0..3}^4 on corpora abc-ba and mixed with dictionary a-ab', 'corpora': sorted(T.CORPORA), 'dictionaries': sorted(DICTS), 'labels': 'every vector'},
}
OUTSIDE = 'corpus texts, dictionaries and sizes outside the catalogue (the label vectors are covered completely); the learner itself (stub)'
EXPLANATION = ('Trainer::new / add_example (gen_features) / train are executed (MIR) up to the learner boundary, where the stub records the examples; for every '
               'label vector the recorded examples must be exactly one per annotated boundary, labelled by the annotation, none for Unknown, with exactly the '
               'n-grams of length 1..N inside the window (with relative positions and multiplicities) and one dictionary feature per touching occurrence.')
ASSUMPTIONS = ['liblinear stub records what from_sparse_features receives', 'hashbrown::HashMap as association list', 'std container models of mirsym']
MUST_REACH = ['examples equal the documented feature definition', 'cover:has-unknown', 'cover:has-dict-feature']
TECHNIQUE = 'bounded symbolic execution of rustc MIR (mirsym): configurations/corpora enumerated, boundary labels symbolic (z3); examples observed at the stubbed learner boundary'


def jobs(tier, seed):
    js = []
    seen = set()

    def add(cfg, cn, dn):
        name = 'ex/%s/%s/%s' % ('-'.join(map(str, cfg)), cn, dn)
        if name not in seen:
            seen.add(name)
            js.append({'name': name, 'cfg': list(cfg), 'corpus': cn, 'dict': dn})
    for cfg in CFGS_QUICK:
        for cn in (['ab-c', 'abc-ba', 'mixed', 'one-char'] if tier == 'quick' else sorted(T.CORPORA)):
            for dn in sorted(DICTS):
                if tier == 'quick' and dn == 'words' and cn not in ('abc-ba', 'mixed'):
                    continue
                add(cfg, cn, dn)
    if tier == 'thorough':
        # the whole grid of window / n-gram sizes 0..3 on two corpora with one dictionary
        for cfg in [(a, b, c, d) for a in range(4) for b in range(4) for c in range(4) for d in range(4)]:
            for cn in ('abc-ba', 'mixed'):
                add(cfg, cn, 'a-ab')
    return js


def make(e, progs, job):
    prog = progs['core']
    st = {}

    def harness(e):
        cfg = tuple(job['cfg'])
        words, max_len = DICTS[job['dict']]
        e.ll = {'build': 'ok', 'coef': T.CoefTable(1), 'log': []}
        cells = []; infos = []
        for kind, text in T.CORPORA[job['corpus']]:
            c0 = T.make_sentence(e, prog, kind, text)
            raw, labels0, types = T.sentence_info(e, prog, c0)
            syms = []
            for cl in S.call(e, prog, 'Sentence', 'boundaries_mut', [Ref(c0)]).cells():
                t = z3.BitVec('lab%d_%d' % (len(cells), len(syms)), 8)
                e.add(z3.ULE(t, 2)); cl.v = Int(t, 8); syms.append(cl.v)
            cells.append(c0); infos.append([raw, syms, types])
        st['infos'] = infos
        r = T.new_trainer(e, prog, cfg, words, max_len)
        if r.var != 'Ok':
            raise Panic('Trainer::new failed')
        tcell = Cell(r.f[0].v)
        for c in cells:
            T.add_example(e, prog, tcell, c)
        # the labels are symbolic; the trainer and the learner stub fork on them through the solver.  Read them off afterwards.
        for inf in infos:
            inf[1] = [e.concretize(l) for l in inf[1]]
        fids = T.feature_ids(e, tcell)
        inv = {v: k for k, v in fids.items()}
        want = T.expected_examples(infos, cfg, words, max_len)
        if any(T.UNK in lb for _, lb, _ in infos):
            e.cover('has-unknown')
        if any(f[0] == 'dict' for _, fs in want for f in fs):
            e.cover('has-dict-feature')
        try:
            rt = T.train(e, prog, tcell)
        except Panic:
            rt = err(None)      # whether train is total is C11's business; the examples were handed over before
        log = e.ll['log']
        if not want:
            e.check(rt.var == 'Err' and (not log or log[0]['problem'] is None or True), 'examples equal the documented feature definition')
            if log:
                e.check(len(log[0]['problem'].ys) == 0, 'no example without annotated boundary')
            return
        if not log:
            e.fail('examples equal the documented feature definition')
            return
        p = log[0]['problem']
        got = []
        for y, ex in zip(p.ys, p.xs):
            d = {}
            for fid, cnt in ex:
                f = inv.get(fid)
                d[f] = d.get(f, 0) + cnt
            got.append((y, d))
        key = lambda t: (t[0], sorted((repr(k), v) for k, v in t[1].items()))
        same = sorted(got, key=key) == sorted([(y, {k: float(v) for k, v in d.items()}) for y, d in want], key=key)
        st['got'] = got; st['want'] = want
        e.check(same, 'examples equal the documented feature definition')

    def describe(m):
        infos = st.get('infos', [])
        corpus = [{'kind': 'raw', 'text': t, 'labels': lb} for t, lb, _ in infos]
        words, max_len = DICTS[job['dict']]
        return {'property': ID, 'job': job, 'corpus': corpus, 'cfg': job['cfg'], 'dict': words, 'max_len': max_len,
                'got': repr(st.get('got'))[:1500], 'want': repr(st.get('want'))[:1500]}

    def sample():
        if 'infos' not in st:
            return None
        return {'job': job['name'], 'labels': [lb for _, lb, _ in st['infos']]}
    e.sample = sample
    return harness, describe


def role(v):
    d = v.get('data') or {}
    msg = v['msg']
    has_unknown = any(T.UNK in c.get('labels', []) for c in d.get('corpus', []))
    if v['kind'] != 'assert' or msg.startswith('MIR assert'):
        return 'panic:%s:%s' % (hlib.panic_site(v), hlib.panic_kind(msg))
    return '%s:%s' % (msg, 'unknown-boundaries' if has_unknown else 'annotated-only')


def confirm(sc, replay):
    """native confirmation without hooks: (1) Unknown boundaries must not change the training problem: adding a sentence whose boundaries are all
    Unknown must give the identical model; (2) every non-zero n-gram weight of the natively trained model must sit at a documented feature position"""
    cfg = sc['cfg']; corpus = sc['corpus']; words = sc['dict']; max_len = sc['max_len']
    base = {'op': 'train', 'id': 'a', 'cfg': cfg, 'dict': words, 'max_len': max_len, 'corpus': corpus, 'tag_dict': [], 'solver': '1'}
    # (1)
    annotated = [dict(c, labels=[l for l in c['labels']]) for c in corpus]
    stripped = [c for c in annotated if any(l != T.UNK for l in c['labels'])]
    extra = {'kind': 'raw', 'text': 'abc', 'labels': [2, 2]}
    ra = replay.run([dict(base, corpus=stripped, id='a'), dict(base, corpus=stripped + [extra], id='b')])
    out = []
    if any('panic' in r for r in ra):
        # a panic of train is C11's business; here only if it is caused by the unannotated sentence
        if 'panic' in ra[1] and 'panic' not in ra[0]:
            out.append('adding an unannotated sentence makes training panic')
    elif ra[0].get('model') != ra[1].get('model'):
        if 'ok' in ra[0] or 'ok' in ra[1]:
            out.append('adding a sentence without annotations changes the trained model')
    # (3) the number of distinct features the native trainer registers for the witness corpus (Trainer::n_features, public) must equal the number of
    #     distinct features of the documented definition
    rw = replay.run([dict(base, corpus=annotated, id='w')])[0]
    nat_n = rw.get('n_features')
    sents = []
    for c in annotated:
        text = c['text']
        sents.append((text, c['labels'], [P.get_type_py(ch) for ch in text]))
    want = T.expected_examples(sents, tuple(cfg), words, max_len)
    exp_n = len({k for _, d in want for k in d})
    if nat_n is not None and want and nat_n != exp_n:
        out.append('the native trainer registers %d distinct features for the witness corpus, the documented definition gives %d' % (nat_n, exp_n))
    return bool(out), {'native_violations': out, 'n_features': [r.get('n_features') for r in ra], 'witness_n_features': nat_n, 'expected_n_features': exp_n}
