"""C05 — sentence parsers are total and leave a consistent sentence.

Jobs:
  ctor/<parser>/n        symbolic input of exactly n characters through Sentence::from_<parser>
  hist/<recipe>/<op>/n   a sentence brought into a prior state by a concrete recipe of public API calls
                         (catalogue below), then one update_<op> with a symbolic input of n characters
                         (and optionally reset_tags), checked against the same postcondition.
"""
import json

import z3

from values import *
import hlib
import sentlib as S
from sentlib import NWB, WB, UNK

ID = 'C05'
PROGRAMS = {'core': dict(crate='vaporetto', features=['train', 'kytea'])}
UNIT_CAP = 300
BUDGET_S = {'quick': 600, 'thorough': 1200}      # wall-clock safety caps (exceeding one is reported as inconclusive); typical quick runs take 1-200 s

SPECIALS = {'raw': '\0', 'tokenized': '\\ /\0', 'partial': '\\ /-|\0'}
PARSERS = ('raw', 'tokenized', 'partial')

# prior states: concrete recipes (constructor kind, text, then ops); they differ in text length, tag count,
# Some/None tag pattern, Borrowed/Owned text, default state after a failed update
RECIPES = {
    'default': [('sentence', 'default', '')],
    'raw2': [('sentence', 'raw', 'ab')],
    'tok-tags': [('sentence', 'tokenized', 'a/x b//y')],
    'tok-notags': [('sentence', 'tokenized', 'ab c')],
    'part-tags': [('sentence', 'partial', 'a/t-b|c/u/v')],
    'raw-reset2': [('sentence', 'raw', 'abc'), ('reset_tags', 2)],
    'failed': [('sentence', 'raw', 'ab'), ('update', 'tokenized', ' ')],
    'tok-then-raw': [('sentence', 'tokenized', 'a/x b'), ('update', 'raw', 'xyz')],
}

BOUNDS = {
    'quick': {'ctor_max_chars': 4, 'hist_update_max_chars': 3, 'recipes': sorted(RECIPES), 'alphabet': 'every Unicode scalar value (format delimiters and NUL as concrete classes, every other value symbolic per UTF-8 width)'},
    'thorough': {'ctor_max_chars': 5, 'hist_update_max_chars': 4, 'recipes': sorted(RECIPES), 'alphabet': 'every Unicode scalar value'},
}
OUTSIDE = 'inputs longer than the stated number of characters; prior states other than those produced by the recipe catalogue followed by <=1 reset_tags'
EXPLANATION = ('Each from_*/update_* of vaporetto/src/sentence.rs is executed symbolically (MIR) on an input string whose characters are '
               'symbolic Unicode scalar values; panics, failed MIR asserts (overflow, division by zero, bounds), and the postcondition '
               '(representation invariant + meaning per the format spec + default state after a failed update) are decided by z3 on every path; '
               'afterwards every accessor, both writers and the token iterator are executed on the result.')
ASSUMPTIONS = [
    'std String/Vec/Option/iterator models of mirsym (DESIGN.md 2.1) stand for the std implementation',
    'which inputs are accepted is not part of the property: the format spec is consulted only when the real parser returns Ok',
    'allocation never fails',
]
MUST_REACH = ['ctor ok', 'ctor err', 'update ok', 'update err']


def jobs(tier, seed):
    L = BOUNDS[tier]['ctor_max_chars']; LU = BOUNDS[tier]['hist_update_max_chars']
    js = []
    for p in PARSERS:
        for n in range(0, L + 1):
            js.append({'name': 'ctor/%s/%d' % (p, n), 'kind': 'ctor', 'parser': p, 'n': n})
    for r in sorted(RECIPES):
        for p in PARSERS:
            for n in range(0, LU + 1):
                js.append({'name': 'hist/%s/%s/%d' % (r, p, n), 'kind': 'hist', 'recipe': r, 'parser': p, 'n': n})
    js.sort(key=lambda j: -j['n'])
    return js


def spec_for(parser, chars):
    if parser == 'raw':
        if not chars or any(S.char_is(c, '\0') for c in chars):
            return None
        return list(chars), [UNK] * (len(chars) - 1), [[] for _ in chars]
    if parser == 'tokenized':
        return S.spec_parse_tokenized(chars)
    return S.spec_parse_partial(chars)


def run_recipe(e, prog, recipe):
    cell = None
    for step in recipe:
        if step[0] == 'sentence':
            r = S.new_sentence(e, prog, step[1], mk_str(step[2]))
            assert r.var == 'Ok', 'recipe constructor failed'
            cell = Cell(r.f[0].v)
        elif step[0] == 'update':
            S.update_sentence(e, prog, cell, step[1], mk_str(step[2]))
        elif step[0] == 'reset_tags':
            S.call(e, prog, 'Sentence', 'reset_tags', [Ref(cell), usize(step[1])])
    return cell


def scenario(job, text):
    ops = []
    if job['kind'] == 'ctor':
        ops.append({'op': 'sentence', 'id': 's', 'kind': job['parser'], 'text': text})
    else:
        for step in RECIPES[job['recipe']]:
            if step[0] == 'sentence':
                ops.append({'op': 'sentence', 'id': 's', 'kind': step[1], 'text': step[2]})
            elif step[0] == 'update':
                ops.append({'op': 'update', 'id': 's', 'kind': step[1], 'text': step[2]})
            else:
                ops.append({'op': 'reset_tags', 's': 's', 'n': step[1]})
        ops.append({'op': 'update', 'id': 's', 'kind': job['parser'], 'text': text})
    ops.append({'op': 'observe', 's': 's'})
    return {'property': ID, 'job': job, 'ops': ops}


def make(e, progs, job):
    prog = progs['core']
    state = {}

    def harness(e):
        p = job['parser']
        cell = run_recipe(e, prog, RECIPES[job['recipe']]) if job['kind'] == 'hist' else None
        s = S.sym_string(e, 'c', job['n'], SPECIALS[p])
        state['s'] = s
        sv = hlib.build_str(e, s.chars)
        if job['kind'] == 'ctor':
            r = S.new_sentence(e, prog, p, sv)
            if r.var == 'Err':
                e.cover('ctor err')
                e.stats.reached['ctor err'] = e.stats.reached.get('ctor err', 0) + 1
                return
            cell = Cell(r.f[0].v)
            lab = 'ctor ok'
        else:
            r = S.update_sentence(e, prog, cell, p, sv)
            lab = 'update ok' if r.var == 'Ok' else 'update err'
        e.stats.reached[lab] = e.stats.reached.get(lab, 0) + 1
        o = S.observe(e, prog, cell)
        if r.var == 'Err':
            S.check_is_default(e, prog, o, 'failed update')
            return
        chars = S.check_consistent(e, prog, o, 'after ' + job['kind'])
        S.check_meaning(e, o, chars, spec_for(p, s.chars), 'after ' + job['kind'])

    def describe(m):
        return scenario(job, state['s'].py(m))

    def sample():
        s = state.get('s')
        if s is None or e.solver is None:
            return None
        if e._check() != z3.sat:
            return None
        return {'job': job['name'], 'input': s.py(e.solver.model())}
    e.sample = sample
    return harness, describe


def role(v):
    """role key of a violation: parser + failing condition (independent of the concrete characters)"""
    job = v['data']['job'] if v.get('data') else {}
    msg = v['msg']
    if v['kind'] != 'assert' or msg.startswith('MIR assert') or 'panic' in msg or 'UB' in msg:
        # a panic: where did it happen
        return '%s:%s:%s' % (('from_' if job.get('kind') == 'ctor' else 'update_') + job.get('parser', '?'), hlib.panic_site(v), hlib.panic_kind(msg))
    return '%s:%s' % (('from_' if job.get('kind') == 'ctor' else 'update_') + job.get('parser', '?'), msg.split(': ', 1)[-1])


def native_violations(sc, res):
    """evaluate the property on the native observations of a scenario -> list of violated clauses"""
    out = []
    ops = sc['ops']
    for op, r in zip(ops, res):
        if isinstance(r, dict) and 'panic' in r:
            out.append('panic in %s: %s' % (op['op'], r['panic']))
            return out
        if isinstance(r, dict) and 'crash' in r:
            out.append('crash'); return out
    last_parse = [i for i, op in enumerate(ops) if op['op'] in ('sentence', 'update')][-1]
    pr = res[last_parse]; ob = res[-1]
    if ops[last_parse]['op'] == 'sentence' and 'err' in pr:
        return out
    okf, bad = S.native_obs_ok(ob)
    if not okf:
        out.append('panic in accessors: %s' % bad)
        return out
    if 'err' in pr:
        if not (ob['raw'] == ' ' and ob['char_types'] == [6] and ob['boundaries'] == [] and ob['tags'] == [] and ob['n_tags'] == 0 and ob['scores'] == []):
            out.append('failed update does not leave the default sentence')
        return out
    n = len(ob['raw'])
    if len(ob['char_types']) != n:
        out.append('one character type per character')
    if len(ob['boundaries']) + 1 != n:
        out.append('one boundary label per adjacent pair')
    if len(ob['tags']) != n * ob['n_tags']:
        out.append('characters x tag-count tag slots')
    if ob['scores']:
        out.append('no scores after parsing')
    kind = ops[last_parse]['kind']
    spec = spec_for(kind, [Int(ord(ch), 32) for ch in ops[last_parse]['text']])
    if spec is not None:
        text, bounds, tags = spec
        if ''.join(chr(c.t) for c in text) != ob['raw']:
            out.append('raw text is the unescaped input')
        if bounds != ob['boundaries']:
            out.append('boundary labels are those of the input')
        n_tags, flat = S.expected_tag_matrix(tags)
        want = [None if t is None else ''.join(chr(c.t) for c in t) for t in flat]
        if n_tags != ob['n_tags']:
            out.append('tag count is the maximum number of tags on a character')
        if want != ob['tags']:
            out.append('tags are those of the input')
    return out


def confirm(sc, replay):
    res = replay.run(sc['ops'])
    v = native_violations(sc, res)
    return bool(v), {'native_violations': v, 'native': res[-1] if res else None}


def validate(progs, replay, seed, tier):
    """engine validation: concrete inputs through the engine (concretely) and the native library"""
    import random
    from engine import Engine
    prog = progs['core']
    rnd = random.Random(seed * 7919 + 5)
    alphabet = ['a', 'b', '1', 'é', 'あ', '𠀋', ' ', '/', '\\', '-', '|', '\0', 'ア', 'Ｚ']
    runs = 0; mism = []
    fixed = ['', 'a', '\\', 'a\\', 'a b', 'a/x b//y', 'a|b-c d', 'a/t-b|c/u/v', 'まぁ/名詞 社長', 'a\\ b\\/c/t\\\\', 'a/-b', '火-星 猫|だ/助動詞/ダ']
    cases = [(p, t) for p in PARSERS for t in fixed]
    for _ in range(60 if tier == 'quick' else 300):
        cases.append((rnd.choice(PARSERS), ''.join(rnd.choice(alphabet) for _ in range(rnd.randint(0, 6)))))
    e = Engine(prog)
    for p, text in cases:
        job = {'kind': 'ctor', 'parser': p, 'n': len(text)}
        sc = scenario(job, text)
        native = replay.run(sc['ops'])
        got = {}

        def h(e):
            r = S.new_sentence(e, prog, p, mk_str(text))
            got['ok'] = r.var == 'Ok'
            if r.var == 'Ok':
                o = S.observe(e, prog, Cell(r.f[0].v))
                got['raw'] = bytes(b.conc() for b in o.raw).decode('utf-8')
                got['boundaries'] = [b.conc() for b in o.boundaries]
                got['char_types'] = [b.conc() for b in o.char_types]
                got['n_tags'] = o.n_tags.conc()
                got['tags'] = [None if S.opt_tag_bytes(t) is None else bytes(b.conc() for b in S.opt_tag_bytes(t)).decode('utf-8') for t in o.tags]
                got['tokenized'] = bytes(b.conc() for b in o.tokenized).decode('utf-8')
                got['partial'] = bytes(b.conc() for b in o.partial).decode('utf-8')
                got['tokens'] = [[t.start.conc(), t.end.conc(), bytes(b.conc() for b in t.surface).decode('utf-8')] for t in o.tokens]
        e.violations = []
        e.explore(h)
        runs += 1
        n0 = native[0]
        if e.violations:
            eng = {'panic': e.violations[0].msg}
        else:
            eng = got
        nat_panic = 'panic' in n0 or any(isinstance(v, dict) and 'panic' in v for v in (native[-1] or {}).values()) if isinstance(native[-1], dict) else 'panic' in n0
        if 'panic' in eng:
            if not nat_panic:
                mism.append({'case': [p, text], 'engine': eng, 'native': native})
            continue
        if nat_panic:
            mism.append({'case': [p, text], 'engine': eng, 'native': native}); continue
        if eng['ok'] != ('ok' in n0):
            mism.append({'case': [p, text], 'engine': eng, 'native': n0}); continue
        if eng['ok']:
            ob = native[-1]
            for k in ('raw', 'boundaries', 'char_types', 'n_tags', 'tags', 'tokenized', 'partial'):
                if eng[k] != ob[k]:
                    mism.append({'case': [p, text], 'key': k, 'engine': eng[k], 'native': ob[k]}); break
            else:
                nt = [[t['start'], t['end'], t['surface']] for t in ob['tokens']]
                if nt != eng['tokens']:
                    mism.append({'case': [p, text], 'key': 'tokens', 'engine': eng['tokens'], 'native': nt})
    return {'runs': runs, 'mismatches': mism}
