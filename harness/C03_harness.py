"""C03 — tokenized text format round-trips (write -> parse identity; write-after-parse idempotent; valid UTF-8)."""
import rtlib

ID = 'C03'
FMT = 'tokenized'
PROGRAMS = rtlib.PROGRAMS
UNIT_CAP = 300
BUDGET_S = {'quick': 600, 'thorough': 1200}      # wall-clock safety caps (exceeding one is reported as inconclusive); typical quick runs take 1-200 s
SP = ' /\\'
BOUNDS = {
    'quick': {'write_parse': 'text <=3 chars over all scalar values (delimiter classes + every other value per UTF-8 width), labels {WB,NB}^(n-1); '
                             'tags: <=2 per token, each absent or 1 symbolic char (2 chars for single-token sentences); see job list',
              'idempotence': 'every string of <=4 scalar values (incl. NUL, delimiters) accepted by from_tokenized'},
    'thorough': {'write_parse': 'text <=4 chars, tags of <=2 symbolic chars', 'idempotence': 'every string of <=5 scalar values'},
}
OUTSIDE = 'longer texts/tags, more than 2 tags per token, tag presence patterns outside the job list'
EXPLANATION = ('write_tokenized_text and from_tokenized/parse_tokenized are executed symbolically (MIR) on a sentence built through the public API '
               'with symbolic characters, symbolic WB/NB labels and symbolic tags; z3 decides on every path that parsing the written bytes gives '
               'back the same raw text, labels and per-token tags (up to trailing absent tags), that the written bytes are valid UTF-8, and that '
               'write(parse(write(parse(s)))) == write(parse(s)) for every accepted string s.')
ASSUMPTIONS = ['std String/Vec/iterator models of mirsym', 'sentences are built with from_raw + boundaries_mut + reset_tags/tags_mut; tags are non-empty and NUL-free as the property states']
MUST_REACH = ['raw text survives the round trip', 'per-token tags survive the round trip (up to trailing absent tags)', 'write-after-parse is idempotent', 'cover:rejected']


def jobs(tier, seed):
    js = []

    def wp(n, nt, pat, tspec=SP, tagspec=SP, reuse=False):
        js.append({'name': 'wp/n%d/t%d/%s/%s%s' % (n, nt, pat or '-', 'full' if tspec else 'plain', '/reuse' if reuse else ''), 'kind': 'wp', 'n': n, 'n_tags': nt,
                   'pattern': pat, 'text_specials': tspec, 'tag_specials': tagspec, 'reuse': reuse})
    maxn = 3 if tier == 'quick' else 4
    for n in range(1, maxn + 1):
        wp(n, 0, '')
    for pat in ('10', '01', '11'):
        wp(2, 1, pat)
    for pat in ('10', '01', '11', '20', '02'):
        wp(1, 2, pat)
    for pat in ('1001', '0110', '1011'):
        wp(2, 2, pat, tspec='')
    # the written text parsed by update_* into a sentence object that held other tagged content before
    for n, nt, pat in ((1, 0, ''), (2, 0, ''), (2, 1, '01'), (2, 1, '10'), (1, 2, '01'), (1, 2, '10'), (2, 2, '0110')):
        wp(n, nt, pat, tspec='', tagspec='', reuse=True)
    if tier == 'thorough':
        for pat in ('21', '12', '22'):
            wp(2, 1, pat)
        for pat in ('21', '12', '22'):
            wp(1, 2, pat)
        for pat in ('100', '010', '001', '101', '111'):
            wp(3, 1, pat, tspec='')
        wp(2, 2, '1111', tspec='')
    for n in range(0, (4 if tier == 'quick' else 5) + 1):
        js.append({'name': 'idem/%d' % n, 'kind': 'idem', 'n': n, 'n_tags': 0, 'text_specials': SP + '\0'})
    js.sort(key=lambda j: -(j['n'] + sum(int(c) for c in j.get('pattern', '') or '0')))
    return js


def make(e, progs, job):
    return rtlib.make(e, progs, job, FMT)


def role(v):
    return rtlib.role(v, FMT)


def confirm(sc, replay):
    return rtlib.confirm(sc, replay)


def validate(progs, replay, seed, tier):
    return rtlib.validate(progs, replay, seed, tier, FMT)
