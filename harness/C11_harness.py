"""C11 — training is total and its output is always usable."""
import subprocess
import time

import z3

from values import *
from engine import b_and
import hlib
import sentlib as S
import predlib as P
import trainlib as T
import C07_harness
from models.m_seq import seq_values
from models.m_io import Reader

ID = 'C11'
PROGRAMS = {'core': dict(crate='vaporetto', features=['train', 'kytea'])}
UNIT_CAP = 150
BUDGET_S = {'quick': 600, 'thorough': 1200}      # wall-clock safety caps (exceeding one is reported as inconclusive); typical quick runs take 1-200 s

CORPORA = dict(T.CORPORA)
CORPORA.update({
    'empty': [],
    'all-nb': [('tokenized', 'abc')],
    'all-wb': [('tokenized', 'a b c')],
    'all-unknown': [('partial', 'a b c')],
    'partly-tagged': [('tokenized', 'ab/N c ab/V'), ('partial', 'c/X|a b')],
    'tagged-long': [('tokenized', 'abc/N a/X abc/V a/Y')],
    # every tagged token has exactly one tag: the tag models carry no classifier at all (no tag n-gram weights), while the boundary model has type n-grams
    'tagged-unambiguous': [('tokenized', 'ab/N c/X ab/N'), ('tokenized', 'c/X a b')],
    # one surface seen with different numbers of tag slots, the extra slot ambiguous: the second-layer classifier of 'ab' meets an example that has no second slot
    'tag-slots-differ': [('tokenized', 'ab/N/x c ab/V/y'), ('tokenized', 'c ab/N')],
})
CFGS_QUICK = [(0, 0, 0, 0), (1, 1, 1, 1), (2, 2, 2, 2), (1, 3, 1, 3), (1, 1, 2, 2), (2, 2, 1, 1), (0, 2, 2, 0), (2, 0, 0, 2), (3, 1, 1, 3), (1, 2, 2, 1), (1, 3, 2, 1)]
DICTS = {'none': ([], 4), 'a-ab': (['a', 'ab'], 1), 'dup': (['a', 'a'], 2)}
BOUNDS = {
    'quick': {'configurations': CFGS_QUICK, 'corpora': sorted(CORPORA), 'dictionaries': sorted(DICTS), 'learner': 'stub: every build_model outcome (Err/Ok) of the first two learning problems, '
              'every order of the label list, coefficients from VERIF_SEED', 'evaluation text': '2 symbolic characters', 'tag dictionary': 'with and without'},
    'thorough': {'configurations': 'all (cw, cn, tw, tn) in {0..3}^4 (type window 3 only with type n = 0 or char side (3,3)) plus (255,1,1,1) on three corpora without dictionary; the quick list on every corpus and dictionary', 'corpora': sorted(CORPORA),
                 'dictionaries': sorted(DICTS), 'evaluation text': '1..3 symbolic characters'},
}
OUTSIDE = ('non-finite learner coefficients; liblinear itself (stub); the floating-point range of the quantisation is posed to z3 as a stand-alone QF_FP query under a 60 s cap and reported '
           'as not decided on timeout; corpora/configurations outside the catalogue')
EXPLANATION = ('Trainer::new/add_example/train and TagTrainer are executed (MIR) over the stub learner for configurations including 0 sizes, n > window and differing windows, '
               'corpora including empty/single-class/unannotated/partly tagged ones and both learner outcomes; any reachable panic, failed unwrap or overflow is a violation; '
               'every returned model is serialised and re-read, given to Predictor::new with and without tag prediction, used to predict and tag a symbolic text, and all its '
               'weights are checked to lie in the signed 16-bit range.')
ASSUMPTIONS = ['liblinear stub with finite coefficients', 'bincode typed-token model for the re-read', 'daachorse contract model', 'std container models of mirsym']
MUST_REACH = ['returned model is usable', 'weights within the signed 16-bit range', 'cover:train-returned-error', 'cover:train-returned-model', 'cover:tag-models-present']
TECHNIQUE = 'bounded symbolic execution of rustc MIR (mirsym + z3): evaluation text symbolic, learner outcomes/label orders nondeterministic (all explored), configurations/corpora enumerated; stand-alone z3 QF_FP query for the quantisation range'


def jobs(tier, seed):
    cfgs = list(CFGS_QUICK)
    grid = []
    if tier == 'thorough':
        grid = [(a, b, c, d) for a in range(4) for b in range(4) for c in range(4) for d in range(4) if not (c == 3 and d > 0 and (a, b) != (3, 3))] + [(255, 1, 1, 1)]
    js = [{'name': 'quantisation-range', 'kind': 'zquery'}]
    # thorough (a): the whole grid of window / n-gram sizes on three corpora without dictionary
    for cfg in grid:
        if cfg in cfgs:
            continue
        for cn in ('abc-ba', 'tagged', 'all-nb'):
            js.append({'name': 'train/%s/%s/%s' % ('-'.join(map(str, cfg)), cn, 'none'), 'kind': 'train', 'cfg': list(cfg), 'corpus': cn, 'dict': 'none', 'seed': seed,
                       'tagdict': cn in ('tagged', 'partly-tagged')})
    # quick and thorough (b): the configuration list on every corpus and dictionary
    for cfg in cfgs:
        for cn in sorted(CORPORA):
            for dn in sorted(DICTS):
                if tier == 'quick' and dn != 'none' and cn not in ('abc-ba', 'tagged', 'all-nb'):
                    continue
                if tier == 'quick' and cfg not in ((1, 1, 1, 1), (1, 3, 1, 3), (0, 0, 0, 0), (1, 1, 2, 2)) and cn in ('mixed', 'one-char', 'tagged-partial', 'ab-c', 'tagged-unambiguous'):
                    continue
                if tier == 'quick' and cfg not in ((1, 1, 1, 1), (1, 3, 1, 3), (2, 2, 1, 1), (0, 2, 2, 0), (3, 1, 1, 3), (1, 3, 2, 1)) and cn in ('tagged', 'tagged-long', 'partly-tagged', 'tagged-partial', 'tagged-unambiguous'):
                    continue
                js.append({'name': 'train/%s/%s/%s' % ('-'.join(map(str, cfg)), cn, dn), 'kind': 'train', 'cfg': list(cfg), 'corpus': cn, 'dict': dn, 'seed': seed,
                           'tagdict': cn in ('tagged', 'partly-tagged')})
    return js


def all_weights(model):
    md = model.f[0].v
    out = []

    def walk(v):
        if isinstance(v, Int) and v.bits == 32 and v.sg:
            out.append(P.signed32(v.conc()))
        elif isinstance(v, (Agg, Enum)):
            for c in v.f:
                walk(c.v)
        elif isinstance(v, Seq):
            for c in v.e:
                walk(c.v)
    for nm in ('char_ngram_model', 'type_ngram_model', 'dict_model', 'tag_models'):
        walk(hlib.fval(md, nm))
    return out


def zquery():
    """stand-alone SMT query (QF_FP): for finite w, m with |w| <= m and mult = m/32767 != 0, trunc(w/mult) is defined and within [-32767, 32767]"""
    t0 = time.time()
    F = z3.Float64()
    w = z3.FP('w', F); m = z3.FP('m', F)
    rm = z3.RNE()
    mult = z3.fpDiv(rm, m, z3.FPVal(32767.0, F))
    q = z3.fpDiv(rm, w, mult)
    pre = z3.And(z3.Not(z3.fpIsNaN(w)), z3.Not(z3.fpIsInf(w)), z3.Not(z3.fpIsNaN(m)), z3.Not(z3.fpIsInf(m)),
                 z3.fpLEQ(z3.fpAbs(w), m), z3.Not(z3.fpEQ(mult, z3.FPVal(0.0, F))))
    bad = z3.Or(z3.fpIsNaN(q), z3.fpIsInf(q), z3.fpGEQ(z3.fpAbs(q), z3.FPVal(32768.0, F)))
    res = {}
    for name, extra in (('all finite coefficients', z3.BoolVal(True)), ('maximum >= 2^-1000', z3.fpGEQ(m, z3.FPVal(2.0 ** -1000, F)))):
        s = z3.Solver(); s.set('timeout', 30000)
        s.add(pre, extra, bad)
        r = s.check()
        ent = {'verdict': str(r), 'secs': round(time.time() - t0, 1)}
        if r == z3.sat:
            mdl = s.model()
            ent['witness'] = {'w': str(mdl[w]), 'm': str(mdl[m])}
        res[name] = ent
        if r == z3.unsat:
            break
    return res


def make(e, progs, job):
    prog = progs['core']
    st = {}

    def harness_z(e):
        res = zquery()
        st['z'] = res
        e.stats.reached['quantisation range query: ' + json_short(res)] = 1
        first = res.get('all finite coefficients', {})
        second = res.get('maximum >= 2^-1000', {})
        if first.get('verdict') == 'unsat' or second.get('verdict') == 'unsat':
            e.check(True, 'quantisation stays within the signed 16-bit range (QF_FP query)')
        elif second.get('verdict') == 'sat':
            e.fail('quantisation stays within the signed 16-bit range (QF_FP query)')
        else:
            e.stats.reached['quantisation range NOT DECIDED (solver timeout)'] = 1

    def harness(e):
        out = e.memo(('train', job['name']), lambda: train_part(e))
        if out is None:
            e.cover('train-returned-error')
            return
        model, preds, okk, ws = out
        e.cover('train-returned-model')
        st['model'] = model
        st['range_violation'] = not all(-32768 <= w <= 32767 for w in ws)
        e.check(not st['range_violation'], 'weights within the signed 16-bit range')
        if len(seq_values(hlib.fval(model.f[0].v, 'tag_models'))):
            e.cover('tag-models-present')
        e.check(okk, 'returned model is usable')
        cfg = tuple(job['cfg'])
        n = 2
        ss = S.sym_string(e, 'x', n, 'ab', exclude='\0')
        st['s'] = ss
        for tags, pc in preds:
            rs = S.new_sentence(e, prog, 'raw', hlib.build_str(e, ss.chars))
            cell = Cell(rs.f[0].v)
            P.prepare_types(e, prog, cell, {'type': ['R'] if cfg[3] and cfg[2] else [], 'tw': cfg[2], 'tags': True if tags else None})
            S.call(e, prog, 'Predictor', 'predict', [Ref(pc), Ref(cell)])
            if tags:
                S.call(e, prog, 'Sentence', 'fill_tags', [Ref(cell)])
            S.observe(e, prog, cell, writers=True, tokens=True)

    def train_part(e):
        cfg = tuple(job['cfg'])
        words, max_len = DICTS[job['dict']]
        e.ll = {'build': 'choose', 'coef': T.CoefTable(job['seed'] + 7), 'log': [], 'label_order': 'choose', 'choose_limit': 2}
        cells = [T.make_sentence(e, prog, kind, text) for kind, text in CORPORA[job['corpus']]]
        tagdict = []
        if job.get('tagdict'):
            tagdict = [T.make_sentence(e, prog, 'tokenized', 'zz/D1/D2 ab/N')]
        r = T.new_trainer(e, prog, cfg, words, max_len, tagdict)
        if r.var != 'Ok':
            return None
        tcell = Cell(r.f[0].v)
        for c in cells:
            T.add_example(e, prog, tcell, c)
        rt = T.train(e, prog, tcell)
        if rt.var != 'Ok':
            return None
        model = rt.f[0].v
        ws = all_weights(model)
        mcell = Cell(model)
        rv = S.call(e, prog, 'Model', 'to_vec', [Ref(mcell)])
        okk = rv.var == 'Ok'
        if okk:
            data = seq_values(rv.f[0].v)
            rr = e.call('Model::read::<&mut Reader>', [Ref(Cell(Reader(data)))])
            okk = rr.var == 'Ok'
            if okk:
                r2 = S.call(e, prog, 'Model', 'to_vec', [Ref(Cell(rr.f[0].v))])
                okk = r2.var == 'Ok' and C07_harness.elems_equal(e, seq_values(r2.f[0].v), data) is True
        preds = []
        for tags in (False, True):
            rp = P.new_predictor(e, prog, deep_clone(model), tags)
            if rp.var != 'Ok':
                okk = False
            else:
                preds.append((tags, Cell(rp.f[0].v)))
        return model, preds, okk, ws

    def describe(m):
        if job['kind'] == 'zquery':
            return {'property': ID, 'job': job, 'z': st.get('z')}
        words, max_len = DICTS[job['dict']]
        corpus = [{'kind': k, 'text': t} for k, t in CORPORA[job['corpus']]]
        text = st['s'].py(m) if 's' in st else 'ab'
        tagdict = [{'kind': 'tokenized', 'text': 'zz/D1/D2 ab/N'}] if job.get('tagdict') else []
        return {'property': ID, 'job': job, 'cfg': job['cfg'], 'dict': words, 'max_len': max_len, 'corpus': corpus, 'text': text, 'range_violation': bool(st.get('range_violation')),
                'ops': [{'op': 'train', 'id': 'm', 'cfg': job['cfg'], 'dict': words, 'max_len': max_len, 'corpus': corpus, 'tag_dict': tagdict, 'solver': '1'}]}

    def sample():
        if job['kind'] == 'zquery':
            return {'job': job['name'], 'query': st.get('z')}
        return {'job': job['name'], 'learner_calls': len(getattr(e, 'll', {}).get('log', []))}
    e.sample = sample
    return (harness_z if job['kind'] == 'zquery' else harness), describe


def json_short(x):
    import json
    return json.dumps(x)[:300]


def role(v):
    d = v.get('data') or {}
    msg = v['msg']
    job = d.get('job', {})
    cfg = job.get('cfg', [1, 1, 1, 1])
    tags = []
    if cfg[1] > cfg[0] or cfg[3] > cfg[2]:
        tags.append('ngram-size>window')
    if job.get('corpus') in ('empty', 'all-nb', 'all-unknown', 'one-char'):
        tags.append('no-word-boundary-label')
    if job.get('dict') == 'dup':
        tags.append('duplicate-dictionary-words')
    if v['kind'] != 'assert' or msg.startswith('MIR assert'):
        return 'panic:%s:%s:%s' % (hlib.panic_site(v), hlib.panic_kind(msg), '+'.join(tags) or 'regular')
    return '%s:%s' % (msg, '+'.join(tags) or 'regular')


def confirm(sc, replay):
    if sc['job']['kind'] == 'zquery':
        return False, sc.get('z')
    text = sc.get('text') or 'ab'
    ops = list(sc['ops'])
    ops += [{'op': 'model_roundtrip', 'model': 'm', 'trailing': []}]
    for tags in (False, True):
        pid = 'p%d' % tags
        ops += [{'op': 'predictor', 'id': pid, 'model': 'm', 'tags': tags}, {'op': 'sentence', 'id': 's' + pid, 'kind': 'raw', 'text': text},
                {'op': 'predict', 's': 's' + pid, 'p': pid}] + ([{'op': 'fill_tags', 's': 's' + pid}] if tags else []) + [{'op': 'observe', 's': 's' + pid}]
    res = replay.run(ops)
    r = res[0]
    if 'panic' in r:
        return True, {'native_violations': ['Trainer::train panicked: ' + str(r['panic'])]}
    if 'err' in r:
        return False, {'native': r}
    bad = []
    for op, x in zip(ops[1:], res[1:]):
        if isinstance(x, dict) and 'panic' in x:
            bad.append('%s panicked on the natively trained model: %s' % (op['op'], x['panic']))
        if isinstance(x, dict) and 'err' in x and op['op'] == 'predictor':
            bad.append('Predictor::new rejected the natively trained model: %s' % x['err'])
        if op['op'] == 'observe' and isinstance(x, dict) and any(isinstance(v, dict) and 'panic' in v for v in x.values()):
            bad.append('accessors panicked after predicting with the natively trained model')
    mj = r.get('model') or {}

    def ws(o):
        if isinstance(o, dict):
            for k, v in o.items():
                if k in ('weights', 'bias') and isinstance(v, list) and all(isinstance(x, int) for x in v):
                    for x in v:
                        yield x
                else:
                    yield from ws(v)
        elif isinstance(o, list):
            for v in o:
                yield from ws(v)
    if any(not -32768 <= x <= 32767 for x in ws(mj)):
        bad.append('weight outside the signed 16-bit range')
    if not bad and sc.get('range_violation'):
        # the engine showed that SOME learner coefficients give out-of-range weights; the real learner's coefficients on the witness corpus need not be such.
        # Native confirmation therefore trains the real liblinear on a few corpora built to make one feature dominate (rare decisive feature introduced last / first).
        for probe in range_probes(sc.get('cfg') or sc['job'].get('cfg')):
            rr = replay.run([dict(probe, op='train', id='rp', solver='L2RegularizedL2LossSVCDual')])[0]
            if 'panic' in rr:
                bad.append('Trainer::train panicked on a range probe: ' + str(rr['panic'])); break
            out = [x for x in ws(rr.get('model') or {}) if not -32768 <= x <= 32767]
            if out:
                bad.append('weight outside the signed 16-bit range on probe corpus %r (cfg %r): %r' % ([c['text'] for c in probe['corpus']][:4], probe['cfg'], out[:3])); break
    return bool(bad), {'native_violations': bad[:5]}


def range_probes(cfg):
    """corpora on which the real learner gives one late (or early) feature a dominating coefficient"""
    def tok(lines):
        return [{'kind': 'tokenized', 'text': t} for t in lines]
    ps = []
    balanced = ['a a', 'aa'] * 6
    ps.append({'cfg': [1, 1, 0, 0], 'dict': [], 'max_len': 1, 'corpus': tok(balanced + ['a z'] * 6), 'tag_dict': []})
    ps.append({'cfg': [1, 1, 0, 0], 'dict': [], 'max_len': 1, 'corpus': tok(['a z'] * 6 + balanced), 'tag_dict': []})
    ps.append({'cfg': [0, 0, 0, 0], 'dict': ['ab', 'xyz'], 'max_len': 3, 'corpus': tok(['c a b c', 'cabc'] * 4 + ['xyz'] * 4), 'tag_dict': []})
    ps.append({'cfg': [0, 0, 0, 0], 'dict': ['ab', 'xyz'], 'max_len': 3, 'corpus': tok(['xyz'] * 4 + ['c a b c', 'cabc'] * 4), 'tag_dict': []})
    if cfg:
        ps.append({'cfg': list(cfg), 'dict': ['ab', 'xyz'], 'max_len': 3, 'corpus': tok(['c a b c', 'cabc'] * 4 + ['xyz', 'a z'] * 4), 'tag_dict': []})
        ps.append({'cfg': list(cfg), 'dict': [], 'max_len': 1, 'corpus': tok(balanced + ['a z'] * 6), 'tag_dict': []})
    return ps
