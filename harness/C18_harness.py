"""C18 — no input drives the unchecked code out of bounds.

Not a separate execution model: the prediction / tagging / filtering / writing / (de)serialisation harnesses of C01, C02, C03,
C06, C14, C15, the sentence-reuse histories of C08 and the feature-configuration harness C13 are re-run with the obligations of every unchecked operation asserted
(the models of get_unchecked[_mut], str::get_unchecked, unwrap_unchecked, String::as_mut_vec + UTF-8 validity of what is
written through it, from_utf8_unchecked, deserialize_unchecked on self-produced tokens only) and with the authors'
debug_assert!s compiled into the MIR.  Only violations of those obligations count here.
"""
import importlib

import hlib

ID = 'C18'
BASE = ['std', 'cache-type-score', 'fix-weight-length', 'tag-prediction', 'charwise-pma']
import C13_harness
PROGRAMS = {'core': dict(crate='vaporetto', features=['train', 'kytea'], extra=[dict(crate='vaporetto_rules')])}
for _k, _v in C13_harness.PROGRAMS.items():
    PROGRAMS['C13:' + _k] = _v
UNIT_CAP = 150
BUDGET_S = {'quick': 600, 'thorough': 1200}      # wall-clock safety caps (exceeding one is reported as inconclusive); typical quick runs take 1-200 s
DELEGATES = {
    'C01_harness': lambda j: j['n'] <= 3 and j['shape'] in ('c2-suffix', 'c4-fixed8', 'c9-var', 'c2-mb', 't2-cache', 'mix', 'd2-long', 't4-nocache'),
    'C02_harness': lambda j: (j['kind'] == 'escape' and j['n'] <= 2) or (j['kind'] == 'spans' and j['n'] == 4 and j['wp'] == '14'),
    'C03_harness': lambda j: j['kind'] == 'wp' and j['n'] <= 2,
    'C06_harness': lambda j: j['n'] <= 2 and j['store'],
    'C14_harness': lambda j: j['n'] == 1,
    'C15_harness': lambda j: j['n'] <= 3,
    'C13_harness': lambda j: j['n'] <= 2 and j['shape'] in ('c2-suffix', 'c4-fixed8', 't2-cache', 'c2-mb', 't2-two'),
    'C08_harness': lambda j: j['n'] <= 2 and j['final'] != 'B' and len(j['hist']) >= 2 and any(x in j['hist'] for x in ('pA', 'pAs', 'tok', 'part')),
}
BOUNDS = {
    'quick': {'re-run harness jobs': 'C01 (n<=3, 8 shapes), C02 (escaping n<=2, spans n=4), C03 (write/parse n<=2), C06 (n<=2, score storing), C14 (n=1), C15 (n<=3), '
                                     'C13 (n<=2, 5 shapes x 7 feature configurations), C08 (sentence-reuse histories of >= 2 operations with prediction/annotation, n<=2; '
                                     're-prediction without update; fill_tags after an update that was not followed by a prediction)', 'obligations': 'see stubs_hit entries starting with precondition:/unsafe: (per call site)'},
    'thorough': {'re-run harness jobs': 'all thorough jobs of C01, C02, C03, C06, C08, C14, C15, C13'},
}
OUTSIDE = 'undefined behaviour inside daachorse / hashbrown / bincode / unicode-segmentation (contract models); inputs outside the bounds of the re-run harnesses'
EXPLANATION = ('Every model of an unchecked operation asserts its precondition and every debug_assert! of the sources is a real MIR assert; the symbolic executions of '
               'the listed harnesses therefore decide, for every path, that no unchecked index is out of range, that every byte offset given to the position map / '
               'str::get_unchecked is a character boundary, and that every string assembled from raw bytes is valid UTF-8.  The evidence lists per call site how many '
               'paths reached each obligation.')
ASSUMPTIONS = ['as in the delegated harnesses (C01, C02, C03, C06, C08, C13, C14, C15)']
MUST_REACH = []


def jobs(tier, seed):
    js = []
    for modname, keep in DELEGATES.items():
        mod = importlib.import_module(modname)
        for j in mod.jobs(tier, seed):
            if tier == 'thorough' or keep(j):
                js.append({'name': '%s:%s' % (modname[:3], j['name']), 'mod': modname, 'job': j, 'n': j.get('n', 0),
                           'prog': 'C13:core' if modname == 'C13_harness' else 'core'})
        if hasattr(mod, 'c18_jobs'):
            # API states outside the delegated property's own quantifier (re-prediction, fill_tags after an update without prediction)
            for j in mod.c18_jobs(tier, seed):
                js.append({'name': '%s:%s' % (modname[:3], j['name']), 'mod': modname, 'job': j, 'n': j.get('n', 0), 'prog': 'core'})
    js.sort(key=lambda j: -j['n'])
    return js


def make(e, progs, job):
    mod = importlib.import_module(job['mod'])
    if job['mod'] == 'C13_harness':
        sub = {k[4:]: v for k, v in progs.items() if k.startswith('C13:')}
    else:
        sub = {'core': progs['core']}
    harness, describe = mod.make(e, sub, job['job'])

    def desc(m):
        d = describe(m)
        if isinstance(d, dict):
            d = dict(d); d['delegate'] = job['mod']
        return d
    return harness, desc


def is_obligation(v):
    msg = v['msg']
    return v['kind'] == 'ub' or 'UB:' in msg or 'assertion failed' in msg or 'not valid UTF-8' in msg or 'written text is valid UTF-8' in msg


def role(v):
    if not is_obligation(v):
        return None
    d = v.get('data') or {}
    return 'unchecked:%s:%s:%s' % (hlib.panic_site(v), hlib.panic_kind(v['msg']), d.get('delegate', '?')[:3])


def confirm(sc, replay):
    mod = importlib.import_module(sc.get('delegate'))
    return mod.confirm(sc, replay)
