"""C06 — predicted tags equal the per-token linear classifiers."""
import z3

from values import *
from engine import b_and, b_or, b_not
import hlib
import sentlib as S
import predlib as P
from models.m_daac import elem_eq
from models.m_core import bytes_eq

ID = 'C06'
PROGRAMS = {'core': dict(crate='vaporetto', features=['train', 'kytea'])}
UNIT_CAP = 150
BUDGET_S = {'quick': 600, 'thorough': 1200}      # wall-clock safety caps (exceeding one is reported as inconclusive); typical quick runs take 1-200 s

SHAPES = {
    't1-basic': {'cw': 2, 'tw': 2, 'char': ['a'],
                 'tags': [{'token': 'a', 'cands': [['N', 'V']], 'char': [('a', [0])], 'type': []}]},
    't2-two': {'cw': 2, 'tw': 2, 'char': ['b'],
               'tags': [{'token': 'a', 'cands': [['X'], ['p', 'q', 'r']], 'char': [('ba', [0, 1]), ('a', [1])], 'type': [('RR', [0])]},
                        {'token': 'ab', 'cands': [['N', 'V'], []], 'char': [('b', [0, 2])], 'type': []}]},
    't3-mb': {'cw': 2, 'tw': 1, 'dict': ['あ'],
              'tags': [{'token': 'あ', 'cands': [['N', 'V', 'W']], 'char': [('あ', [0, 2]), ('éあ', [0])], 'type': [('H', [1])]}]},
    't4-noboundary-ngrams': {'cw': 2, 'tw': 2,
                             'tags': [{'token': 'a', 'cands': [['N', 'V']], 'char': [('a', [0])], 'type': [('R', [0])]}]},
    't5-suffix-boundary': {'cw': 2, 'tw': 2, 'char': ['ba', 'a'], 'type': ['R'],
                           'tags': [{'token': 'ba', 'cands': [['N', 'V']], 'char': [('a', [0]), ('ba', [0])], 'type': [('RR', [0]), ('R', [1])]}]},
    't6-single-only': {'cw': 1, 'tw': 1, 'char': ['a'],
                       'tags': [{'token': 'a', 'cands': [['only'], ['one']], 'char': [], 'type': []}]},
    # more than 8 classes for one token: the class-score vector is longer than the fixed 8-lane layout
    't7-nine-classes': {'cw': 1, 'tw': 1, 'char': ['a'],
                        'tags': [{'token': 'a', 'cands': [['A1', 'A2', 'A3'], ['B1', 'B2', 'B3'], ['C1', 'C2', 'C3']], 'char': [('a', [0])], 'type': []}]},
    # scorer selection: boundary type n-grams present while no tag model has a type tag n-gram (cached window / wide window)
    't8-type-boundary-only': {'cw': 1, 'tw': 1, 'char': ['a'], 'type': ['R'],
                              'tags': [{'token': 'a', 'cands': [['N', 'V']], 'char': [('a', [0])], 'type': []}]},
    't9-type-boundary-only-wide': {'cw': 1, 'tw': 4, 'type': ['R'],
                                   'tags': [{'token': 'a', 'cands': [['N', 'V']], 'char': [('a', [0])], 'type': []}]},
    # a tag model without any candidate (a token seen in tagged data but never tagged itself) precedes a regular one: token ids vs. weight-table positions
    't10-candidate-less-first': {'cw': 1, 'tw': 1, 'char': ['a'],
                                 'tags': [{'token': 'b', 'cands': [[]], 'char': [], 'type': []},
                                          {'token': 'a', 'cands': [['N', 'V']], 'char': [('a', [0])], 'type': [('R', [0])]}]},
}
BOUNDS = {
    'quick': {'text_chars': '1..3', 'shapes': sorted(SHAPES), 'labels': 'symbolic in {WB,NB,Unknown} (set after prediction, as a filter would)',
              'weights': 'tag n-gram weights and class biases: every signed 16-bit value', 'score storing': 'on and off'},
    'thorough': {'text_chars': '1..5', 'shapes': sorted(SHAPES), 'labels': 'symbolic', 'weights': 'signed 16-bit', 'score storing': 'on and off'},
}
OUTSIDE = 'longer texts; model shapes outside the catalogue (<=2 tag models, <=2 categories, <=3 candidates); daachorse / hashbrown internals (contract models)'
EXPLANATION = ('Predictor::new(model, true), predict, Sentence::fill_tags -> Predictor::predict_tags, TagPredictor::predict, the tag scorers '
               '(add_scores recording automaton states, add_tag_scores) and Token::tag_candidates are executed symbolically (MIR) with symbolic tag weights, '
               'class biases, text and boundary labels; z3 decides on every path that each token with a tag model carries per category the arg-max candidate '
               '(first on ties) of bias + sum of tag n-gram weights occurring at their offset from the token end, single-candidate categories carry the '
               'candidate, all other slots are absent, and stored candidate scores equal those sums.')
ASSUMPTIONS = ['daachorse contract model (longest pattern per end position)', 'hashbrown::HashMap as association list (iteration in insertion order; results must not depend on it)',
               'std container models of mirsym', 'weights within i16']
MUST_REACH = ['tags equal the per-token classifiers', 'stored candidate scores equal the sums', 'cover:token-with-model', 'cover:ambiguous-category']


def jobs(tier, seed):
    js = []
    for name in sorted(SHAPES):
        heavy = len(P.pattern_alphabet(SHAPES[name])) >= 2
        for n in range(1, (3 if tier == 'quick' else 5) + 1):
            for store in (False, True):
                if tier == 'quick' and heavy and n == 3 and not store:
                    continue
                if name == 't7-nine-classes' and (n > (1 if tier == 'quick' else 2) or not store):
                    continue
                if name in ('t8-type-boundary-only', 't9-type-boundary-only-wide', 't10-candidate-less-first') and tier == 'quick' and (n > 2 or not store):
                    continue
                if tier == 'thorough' and heavy and n == 5:
                    continue
                js.append({'name': '%s/n%d/%s' % (name, n, 'scores' if store else 'noscores'), 'shape': name, 'n': n, 'store': store})
    js.sort(key=lambda j: -j['n'])
    return js


def build(e, prog, shape, store, concrete=None):
    ms = P.fill_model(e, shape, concrete)
    model = P.build_model(e, prog, ms)
    r = P.new_predictor(e, prog, model, True)
    if r.var != 'Ok':
        raise Panic('Predictor::new rejected a well-formed model')
    pcell = Cell(r.f[0].v)
    if store:
        S.call(e, prog, 'Predictor', 'store_tag_scores', [Ref(pcell), True])
    return ms, pcell


def segments(L):
    n = len(L) + 1
    out = []; start = 0
    for i in range(n):
        if i == n - 1 or L[i] == 1:
            out.append((start, i + 1, 2 in L[start:i])); start = i + 1
    return out


def class_scores(e, tm, chars, types, last):
    """oracle: symbolic score vector of tag model tm for a token whose last character has index `last`"""
    sc = list(tm['bias'])
    n = len(chars)
    tvals = [t if isinstance(t, Int) else Int(t, 8) for t in types]
    for elems, tab in ((chars, tm['char']), (tvals, tm['type'])):
        for g, rl in tab:
            pat = [Int(ord(ch), 32) for ch in g] if isinstance(g, str) else [Int(x, 8) for x in g]
            m = len(pat)
            for r, ws in rl:
                end = last + r + 1
                if end > n or end - m < 0:
                    continue
                if all(elem_eq(e, elems[end - m + k], pat[k]) for k in range(m)):
                    for k, wv in enumerate(ws):
                        sc[k] = e.binop('Add', sc[k], wv)
    return sc


def make(e, progs, job):
    prog = progs['core']
    shape = SHAPES[job['shape']]
    st = {}

    def harness(e):
        ms, pcell = e.memo(('pred', job['shape'], job['store']), lambda: build(e, prog, shape, job['store']))
        st['ms'] = ms
        n = job['n']
        ss = S.sym_string(e, 'x', n, P.pattern_alphabet(shape), exclude='\0')
        st['s'] = ss
        sv = hlib.build_str(e, ss.chars)
        r = S.new_sentence(e, prog, 'raw', sv)
        cell = Cell(r.f[0].v)
        # character types stay symbolic: the tag scorers compare them with pattern elements only (no table lookup)
        types = [cl.v for cl in hlib.fval(cell.v, 'char_types').e]
        S.call(e, prog, 'Predictor', 'predict', [Ref(pcell), Ref(cell)])
        labels = []
        for i, cl in enumerate(S.call(e, prog, 'Sentence', 'boundaries_mut', [Ref(cell)]).cells()):
            t = z3.BitVec('l%d' % i, 8)
            e.add(z3.ULE(t, 2)); cl.v = Int(t, 8); labels.append(cl.v)
        st['labels'] = labels
        S.call(e, prog, 'Sentence', 'fill_tags', [Ref(cell)])
        o = S.observe(e, prog, cell, writers=True, tokens=True)
        L = [e.concretize(l) for l in labels]
        ncat = max([len(tm['cands']) for tm in ms.tag_models] + [0])
        # the property needs a slot for every category of every tag model; it does not fix the tag count beyond that (surplus slots must stay absent, checked below)
        e.check(o.n_tags.conc() >= ncat, 'tag count covers every category')
        nt = o.n_tags.conc()
        e.check(len(o.tags) == n * nt, 'characters x tag-count tag slots')
        if len(o.tags) != n * nt:
            return
        expect_none = set(range(n * nt))
        okall = True
        cand_expect = {}
        for (s0, e0, unk) in segments(L):
            if unk:
                continue
            # does the token surface equal a model token?
            tm = None
            for cand in ms.tag_models:
                tok = [Int(ord(ch), 32) for ch in cand['token']]
                if len(tok) == e0 - s0 and all(elem_eq(e, ss.chars[s0 + k], tok[k]) for k in range(len(tok))):
                    tm = cand; break
            if tm is None:
                continue
            e.cover('token-with-model')
            last = e0 - 1
            sc = class_scores(e, tm, ss.chars, types, last)
            cand_expect[last] = (tm, sc)
            off = 0
            for j, cl in enumerate(tm['cands']):
                slot = last * nt + j
                got = S.opt_tag_bytes(o.tags[slot])
                if len(cl) == 0:
                    continue        # stays None
                expect_none.discard(slot)
                if got is None:
                    okall = False; continue
                if len(cl) == 1:
                    okall = b_and(okall, bytes_eq(e, got, mk_str(cl[0]).b))
                    continue
                e.cover('ambiguous-category')
                # which candidate was chosen (concrete string on this path)
                k = None
                for q, name in enumerate(cl):
                    if bytes_eq(e, got, mk_str(name).b) is True:
                        k = q
                if k is None:
                    okall = False
                else:
                    for q in range(len(cl)):
                        if q < k:
                            okall = b_and(okall, e.binop('Gt', sc[off + k], sc[off + q]))
                        elif q > k:
                            okall = b_and(okall, e.binop('Ge', sc[off + k], sc[off + q]))
                off += len(cl)
        for slot in expect_none:
            if S.opt_tag_bytes(o.tags[slot]) is not None:
                okall = False
        e.check(okall, 'tags equal the per-token classifiers')
        if job['store']:
            # Token::tag_candidates for every token
            okc = True
            it = Cell(S.call(e, prog, 'Sentence', 'iter_tokens', [Ref(cell)]))
            while True:
                nx = S.call(e, prog, 'TokenIterator', 'next', [Ref(it)], 'Iterator')
                if nx.var == 'None':
                    break
                tok = Cell(nx.f[0].v)
                endv = S.call(e, prog, 'Token', 'end', [Ref(tok)]).conc()
                res = S.call(e, prog, 'Token', 'tag_candidates', [Ref(tok)])
                cats = S.seq_vals(res)
                exp = cand_expect.get(endv - 1)
                if exp is None:
                    if len(cats) != 0:
                        okc = False
                    continue
                tm, sc = exp
                if len(cats) != len(tm['cands']):
                    okc = False; continue
                off = 0
                for catv, cl in zip(cats, tm['cands']):
                    items = S.seq_vals(catv)
                    if len(items) != len(cl):
                        okc = False; continue
                    for q, (itv, name) in enumerate(zip(items, cl)):
                        okc = b_and(okc, bytes_eq(e, S.str_bytes(itv.f[0].v), mk_str(name).b))
                        want = Int(0, 32, True) if len(cl) == 1 else sc[off + q]
                        okc = b_and(okc, e.binop('Eq', itv.f[1].v, want))
                    if len(cl) >= 2:
                        off += len(cl)
            e.check(okc, 'stored candidate scores equal the sums')

    def describe(m):
        ms = st['ms']
        text = st['s'].py(m)
        mj = P.model_json(ms, m)
        labels = [l.t if type(l.t) is int else m.eval(l.t, model_completion=True).as_long() for l in st.get('labels', [])]
        return {'property': ID, 'job': job, 'text': text, 'labels': labels, 'model': mj,
                'ops': [{'op': 'model', 'id': 'm', 'data': mj}, {'op': 'predictor', 'id': 'p', 'model': 'm', 'tags': True, 'store_scores': job['store']},
                        {'op': 'sentence', 'id': 's', 'kind': 'raw', 'text': text}, {'op': 'predict', 's': 's', 'p': 'p'},
                        {'op': 'set_boundaries', 's': 's', 'b': labels}, {'op': 'fill_tags', 's': 's'}, {'op': 'observe', 's': 's', 'cands': job['store']}]}

    def sample():
        if e.solver is None or 's' not in st or e._check() != z3.sat:
            return None
        d = describe(e.solver.model())
        return {'job': job['name'], 'text': d['text'], 'labels': d['labels']}
    e.sample = sample
    return harness, describe


def role(v):
    d = v.get('data') or {}
    job = d.get('job', {})
    msg = v['msg']
    if v['kind'] != 'assert' or msg.startswith('MIR assert'):
        return 'panic:%s:%s:%s' % (hlib.panic_site(v), hlib.panic_kind(msg), job.get('shape'))
    return '%s:%s' % (msg, job.get('shape'))


def concrete_expect(mj, text, labels):
    """python oracle on concrete values -> (n_tags, tags list, candidates per token end)"""
    n = len(text)
    types = [P.get_type_py(c) for c in text]
    ncat = max([len(t['tags']) for t in mj['tag_models']] + [0])
    tags = [None] * (n * ncat)
    cands = {}
    for (s0, e0, unk) in segments(labels):
        if unk:
            continue
        tm = None
        for t in mj['tag_models']:
            if t['token'] == text[s0:e0]:
                tm = t; break
        if tm is None:
            continue
        last = e0 - 1
        sc = list(tm['bias'])
        for elems, tab in ((text, tm['char_ngrams']), (types, tm['type_ngrams'])):
            for d in tab:
                g = d['ngram']; m = len(g)
                for w in d['weights']:
                    end = last + w['rel_position'] + 1
                    if end > n or end - m < 0:
                        continue
                    seg = elems[end - m:end]
                    if (seg == g) if isinstance(g, str) else (list(seg) == list(g)):
                        for k, x in enumerate(w['weights']):
                            sc[k] += x
        off = 0
        cl_out = []
        for j, cl in enumerate(tm['tags']):
            if len(cl) == 1:
                tags[last * ncat + j] = cl[0]; cl_out.append([[cl[0], 0]])
            elif len(cl) >= 2:
                seg = sc[off:off + len(cl)]
                k = max(range(len(cl)), key=lambda q: (seg[q], -q))
                tags[last * ncat + j] = cl[k]
                cl_out.append([[c, P.signed32(x)] for c, x in zip(cl, seg)])
                off += len(cl)
            else:
                cl_out.append([])
        cands[e0] = cl_out
    return ncat, tags, cands


def native_violations(sc, res):
    for op, r in zip(sc['ops'], res):
        if isinstance(r, dict) and ('panic' in r or 'crash' in r):
            return ['panic in %s: %s' % (op['op'], r.get('panic'))]
        if isinstance(r, dict) and 'err' in r:
            return ['error in %s: %s' % (op['op'], r['err'])]
    ob = res[-1]
    bad = [k for k, v in ob.items() if isinstance(v, dict) and 'panic' in v]
    if bad:
        return ['panic in accessors: %s' % bad]
    ncat, tags, cands = concrete_expect(sc['model'], sc['text'], sc['labels'])
    out = []
    if ob['n_tags'] != ncat or ob['tags'] != tags:
        out.append('tags equal the per-token classifiers')
    if sc['job'].get('store'):
        got = ob.get('tag_candidates')
        want = []
        for t in ob['tokens']:
            want.append(cands.get(t['end'], []))
        if got != want:
            out.append('stored candidate scores equal the sums')
    return out


def confirm(sc, replay):
    res = replay.run(sc['ops'])
    v = native_violations(sc, res)
    return bool(v), {'native_violations': v, 'native': res[-1] if res else None}


def validation_cases(tier, seed):
    import random
    import C01_harness
    rnd = random.Random(seed * 613 + 3)
    cases = []
    for _ in range(24 if tier == 'quick' else 120):
        name = rnd.choice(sorted(SHAPES))
        sh = SHAPES[name]

        class Fake:
            pass
        ms0 = P.fill_model(Fake(), sh, concrete=C01_harness.DefaultDict(rnd))
        n = rnd.randint(1, 5)
        text = ''.join(rnd.choice(list(P.pattern_alphabet(sh)) * 3 + ['c', 'え', '1']) for _ in range(n))
        labels = [rnd.choice([0, 1, 1, 2]) for _ in range(n - 1)]
        cases.append({'shape': name, 'text': text, 'labels': labels, 'model': P.model_json(ms0), 'store': rnd.random() < 0.5,
                      'conc': dict(ms0 and {k: P.signed32(v.t) for k, v in ms0.vars.items()})})
    return cases


def validate_case(e, progs, replay, case):
    prog = progs['core']
    sh = SHAPES[case['shape']]
    text = case['text']; labels = case['labels']
    got = {}

    def h(e):
        ms, pcell = build(e, prog, sh, case['store'], concrete=case['conc'])
        r = S.new_sentence(e, prog, 'raw', mk_str(text))
        cell = Cell(r.f[0].v)
        S.call(e, prog, 'Predictor', 'predict', [Ref(pcell), Ref(cell)])
        for cl, l in zip(S.call(e, prog, 'Sentence', 'boundaries_mut', [Ref(cell)]).cells(), labels):
            cl.v = Int(l, 8)
        S.call(e, prog, 'Sentence', 'fill_tags', [Ref(cell)])
        o = S.observe(e, prog, cell)
        got['tags'] = [None if S.opt_tag_bytes(t) is None else bytes(b.conc() for b in S.opt_tag_bytes(t)).decode('utf-8') for t in o.tags]
        got['n_tags'] = o.n_tags.conc()
        got['tokenized'] = bytes(b.conc() for b in o.tokenized).decode('utf-8')
    e.violations = []
    e.explore(h)
    ops = [{'op': 'model', 'id': 'm', 'data': case['model']}, {'op': 'predictor', 'id': 'p', 'model': 'm', 'tags': True, 'store_scores': case['store']},
           {'op': 'sentence', 'id': 's', 'kind': 'raw', 'text': text}, {'op': 'predict', 's': 's', 'p': 'p'},
           {'op': 'set_boundaries', 's': 's', 'b': labels}, {'op': 'fill_tags', 's': 's'}, {'op': 'observe', 's': 's'}]
    nat = replay.run(ops)
    ob = nat[-1]
    nat_panic = any(isinstance(r, dict) and 'panic' in r for r in nat)
    if e.violations:
        if not nat_panic:
            return {'case': case['shape'], 'text': text, 'labels': labels, 'engine': e.violations[0].msg, 'native': ob}
        return None
    if nat_panic:
        return {'case': case['shape'], 'text': text, 'labels': labels, 'engine': got, 'native': nat}
    for k in ('tags', 'n_tags', 'tokenized'):
        if got.get(k) != ob.get(k):
            return {'case': case['shape'], 'text': text, 'labels': labels, 'key': k, 'engine': got.get(k), 'native': ob.get(k)}
    return None
