"""C07 — model files round-trip; partial or foreign files are rejected."""
import z3

from values import *
from engine import b_and, b_not
import hlib
import sentlib as S
import predlib as P
from models.m_core import values_eq, bytes_eq
from models.m_bincode import Tok
from models.m_io import Reader, Writer
from models.m_seq import seq_values

ID = 'C07'
PROGRAMS = {'core': dict(crate='vaporetto', features=['train', 'kytea'])}
UNIT_CAP = 200
BUDGET_S = {'quick': 600, 'thorough': 1200}      # wall-clock safety caps (exceeding one is reported as inconclusive); typical quick runs take 1-200 s

SHAPES = {
    'plain': {'cw': 2, 'tw': 1, 'char': ['a', 'ba'], 'type': ['R'], 'dict': ['ab']},
    'empty': {'cw': 3, 'tw': 3},
    'tags': {'cw': 2, 'tw': 2, 'char': ['あ'], 'dict': ['a'],
             'tags': [{'token': 'a', 'cands': [['X'], ['p', 'q']], 'char': [('ba', [0, 1])], 'type': [('RR', [0])]},
                      {'token': 'あ', 'cands': [[], ['N', 'V']], 'char': [], 'type': []}]},
}
BOUNDS = {
    'quick': {'model shapes': sorted(SHAPES) + ['48 random structurally valid shapes drawn from VERIF_SEED (windows 1..4)'], 'weights': 'symbolic i16 weights, symbolic bias', 'trailing bytes': '0..2 symbolic bytes',
              'truncation': 'every cut point of the serialised stream at header-byte and token granularity (incl. lengths 0..24, shorter than the header)',
              'header': '25 symbolic header bytes', 'faults': 'reader/writer failing at its k-th call, every k'},
    'thorough': {'model shapes': sorted(SHAPES) + ['240 random structurally valid shapes drawn from VERIF_SEED (windows 1..5, up to 3 char / 2 type n-grams, 2 dictionary words, 2 tag models)'],
                 'weights': 'symbolic', 'trailing bytes': '0..3', 'truncation': 'every cut point', 'header': '25 symbolic bytes', 'faults': 'every k'},
}
OUTSIDE = ('the byte-level format of bincode (varint encoding, truncation INSIDE an encoded primitive) is not modelled: bincode is a typed token stream by contract '
           '(DESIGN.md appendix B); zstd; model shapes outside the catalogue')
EXPLANATION = ('Model::{to_vec, write, read, read_slice} and the derived Encode/Decode bodies of ModelData and all nested types are executed symbolically (MIR) over '
               'a typed-token model of bincode: z3/structural reasoning decides on every path that decoding what was encoded gives a structurally equal model that '
               're-encodes to the identical stream, that read_slice returns exactly the trailing bytes, that every proper prefix (header bytes and tokens), every '
               'header different from the magic and every failing reader/writer call yields Err and never a panic.')
ASSUMPTIONS = ['bincode 2.0.1 standard config behaves as a sequential self-delimiting typed stream: decoding an exhausted/cut input yields DecodeError, never a panic',
               'std::io Read/Write contract with a fault schedule (the k-th call fails)', 'std container models of mirsym']
MUST_REACH = ['decoded model equals the original', 're-encoding gives the identical stream', 'read_slice returns exactly the trailing bytes',
              'every proper prefix is rejected', 'foreign header is rejected', 'failing reader/writer yields an error']


def shapes(tier, seed):
    sh = dict(SHAPES)
    import random
    rnd = random.Random(seed * 131 + 7)
    for k in range(48 if tier == 'quick' else 240):
        sh['random%03d' % k] = P.random_shape(rnd, max_w=4 if tier == 'quick' else 5)
    return sh


def jobs(tier, seed):
    js = []
    for name in sorted(shapes(tier, seed)):
        for tr in range(0, (2 if tier == 'quick' else 3) + 1):
            js.append({'name': 'roundtrip/%s/t%d' % (name, tr), 'kind': 'roundtrip', 'shape': name, 'trailing': tr})
        js.append({'name': 'prefix/%s' % name, 'kind': 'prefix', 'shape': name})
        js.append({'name': 'faults/%s' % name, 'kind': 'faults', 'shape': name})
    js.append({'name': 'header', 'kind': 'header', 'shape': 'plain'})
    allsh = shapes(tier, seed)
    for j in js:
        if j['shape'] not in SHAPES:
            j['shape_def'] = allsh[j['shape']]
    return js


def build(e, prog, shape):
    ms = P.fill_model(e, shape)
    model = P.build_model(e, prog, ms)
    mcell = Cell(model)
    r = S.call(e, prog, 'Model', 'to_vec', [Ref(mcell)])
    if r.var != 'Ok':
        raise Panic('Model::to_vec failed on a well-formed model')
    return ms, mcell, r.f[0].v


def elems_equal(e, xs, ys):
    if len(xs) != len(ys):
        return False
    r = True
    for x, y in zip(xs, ys):
        if isinstance(x, Tok) != isinstance(y, Tok):
            return False
        if isinstance(x, Tok):
            if x.ty != y.ty:
                return False
            if x.ty in ('bytes', 'str'):
                r = b_and(r, elems_equal(e, x.val, y.val))
            elif isinstance(x.val, int) or isinstance(y.val, int):
                r = b_and(r, (x.val if isinstance(x.val, int) else x.val.conc()) == (y.val if isinstance(y.val, int) else y.val.conc()))
            else:
                r = b_and(r, values_eq(e, x.val, y.val))
        else:
            r = b_and(r, e.binop('Eq', x, y))
        if r is False:
            return False
    return r


def make(e, progs, job):
    prog = progs['core']
    shape = job.get('shape_def') or SHAPES[job['shape']]
    st = {}

    def harness(e):
        ms, mcell, vec = e.memo(('enc', job['shape']), lambda: build(e, prog, shape))
        st['ms'] = ms
        data = seq_values(vec)
        st['len'] = len(data)
        kind = job['kind']
        if kind == 'roundtrip':
            trail = []
            for i in range(job['trailing']):
                t = z3.BitVec('tr%d' % i, 8); trail.append(Int(t, 8))
            st['trail'] = trail
            buf = Seq(list(data) + trail, elt='u8')
            r = S.call(e, prog, 'Model', 'read_slice', [SliceRef(buf, 0, len(buf.e))])
            if r.var != 'Ok':
                e.fail('read_slice accepts a serialised model')
                return
            m2 = r.f[0].v.f[0].v; rest = seq_values(r.f[0].v.f[1].v)
            e.check(elems_equal(e, rest, trail), 'read_slice returns exactly the trailing bytes')
            e.check(values_eq(e, m2.f[0].v, mcell.v.f[0].v), 'decoded model equals the original')
            r2 = S.call(e, prog, 'Model', 'to_vec', [Ref(Cell(m2))])
            e.check(r2.var == 'Ok' and elems_equal(e, seq_values(r2.f[0].v), data), 're-encoding gives the identical stream')
            # reader / writer flavour
            w = Writer()
            rw = e.call('Model::write::<&mut Writer>', [Ref(mcell), Ref(Cell(w))])
            e.check(rw.var == 'Ok' and elems_equal(e, w.out, data), 'write produces the same stream as to_vec')
            rr = e.call('Model::read::<&mut Reader>', [Ref(Cell(Reader(data)))])
            e.check(rr.var == 'Ok' and values_eq(e, rr.f[0].v.f[0].v, mcell.v.f[0].v), 'decoded model equals the original')
        elif kind == 'prefix':
            cut = e.choose(len(data))          # proper prefixes: 0 .. len-1 elements
            st['cut'] = cut
            pre = list(data[:cut])
            rr = e.call('Model::read::<&mut Reader>', [Ref(Cell(Reader(pre)))])
            e.check(rr.var == 'Err', 'every proper prefix is rejected')
            buf = Seq(pre, elt='u8')
            rs = S.call(e, prog, 'Model', 'read_slice', [SliceRef(buf, 0, len(pre))])
            e.check(rs.var == 'Err', 'every proper prefix is rejected')
        elif kind == 'header':
            hdr = []
            nh = 0
            for x in data:
                if isinstance(x, Tok):
                    break
                nh += 1
            for i in range(nh):
                t = z3.BitVec('h%d' % i, 8); hdr.append(Int(t, 8))
            st['hdr'] = hdr
            differs = z3.Or([h.t != d.z() for h, d in zip(hdr, data[:nh])])
            full = hdr + list(data[nh:])
            rr = e.call('Model::read::<&mut Reader>', [Ref(Cell(Reader(full)))])
            e.check(z3.Implies(differs, z3.BoolVal(rr.var == 'Err')), 'foreign header is rejected')
            e.check(z3.Implies(z3.Not(differs), z3.BoolVal(rr.var == 'Ok')), 'genuine header is accepted')
            buf = Seq(full, elt='u8')
            rs = S.call(e, prog, 'Model', 'read_slice', [SliceRef(buf, 0, len(full))])
            e.check(z3.Implies(differs, z3.BoolVal(rs.var == 'Err')), 'foreign header is rejected')
        else:
            # the k-th reader call fails (read_exact of the header = call 1, then one call per token)
            ncalls = 1 + sum(1 for x in data if isinstance(x, Tok))
            k = 1 + e.choose(ncalls)
            st['k'] = k
            rr = e.call('Model::read::<&mut Reader>', [Ref(Cell(Reader(data, fail_at=k)))])
            e.check(rr.var == 'Err', 'failing reader/writer yields an error')
            w = Writer(fail_at=k)
            rw = e.call('Model::write::<&mut Writer>', [Ref(mcell), Ref(Cell(w))])
            e.check(rw.var == 'Err', 'failing reader/writer yields an error')

    def describe(m):
        ms = st['ms']
        mj = P.model_json(ms, m)
        ops = [{'op': 'model', 'id': 'm', 'data': mj}]
        if job['kind'] == 'roundtrip':
            tr = [m.eval(x.t, model_completion=True).as_long() for x in st.get('trail', [])]
            ops.append({'op': 'model_read_chunked', 'model': 'm'})
            ops.append({'op': 'model_roundtrip', 'model': 'm', 'trailing': tr})
        elif job['kind'] == 'prefix':
            ops.append({'op': 'model_prefix_scan', 'model': 'm'})
        elif job['kind'] == 'header':
            hb = [m.eval(x.t, model_completion=True).as_long() for x in st.get('hdr', [])]
            ops.append({'op': 'model_read_chunked', 'model': 'm'})      # genuine header through readers that deliver short reads
            ops.append({'op': 'model_header', 'model': 'm', 'header': hb})
        else:
            ops.append({'op': 'model_faults', 'model': 'm'})
        return {'property': ID, 'job': job, 'model': mj, 'cut_elements': st.get('cut'), 'fail_at': st.get('k'), 'ops': ops}

    def sample():
        return {'job': job['name'], 'stream_elements': st.get('len'), 'cut': st.get('cut'), 'fail_at': st.get('k')}
    e.sample = sample
    return harness, describe


def role(v):
    d = v.get('data') or {}
    job = d.get('job', {})
    msg = v['msg']
    if v['kind'] != 'assert' or msg.startswith('MIR assert'):
        short = ''
        if job.get('kind') == 'prefix' and d.get('cut_elements') is not None and d['cut_elements'] < 25:
            short = ':input-shorter-than-header'
        return 'panic:%s:%s:%s%s' % (hlib.panic_site(v), hlib.panic_kind(msg), job.get('kind'), short)
    return '%s:%s' % (job.get('kind'), msg)


def confirm(sc, replay):
    res = replay.run(sc['ops'])
    r = res[-1]
    kind = sc['job']['kind']
    if isinstance(r, dict) and 'panic' in r:
        return True, {'native': r}
    bad = []
    if kind == 'roundtrip':
        ch = [x for op, x in zip(sc['ops'], res) if op['op'] == 'model_read_chunked']
        if ch and ch[0].get('bad'):
            bad.append('reader: ' + str(ch[0]['bad'][0]))
        if not (r.get('read_ok') and r.get('to_vec_equal') and r.get('write_equal') and r.get('slice_ok') and r.get('slice_to_vec_equal')):
            bad.append('roundtrip')
        if r.get('rest') != sc['ops'][-1]['trailing']:
            bad.append('read_slice returns exactly the trailing bytes')
    elif kind == 'prefix':
        bad = r.get('bad', [])
    elif kind == 'header':
        ch = [x for op, x in zip(sc['ops'], res) if op['op'] == 'model_read_chunked']
        if not r.get('differs') and ch and ch[0].get('bad'):
            bad.append('genuine header is accepted (short reads): ' + str(ch[0]['bad'][0]))
        if not r.get('differs') and r.get('read') is not True:
            bad.append('genuine header is accepted')
        if r.get('differs') and (r.get('read') is not False or r.get('read_slice') is not False):
            bad.append('foreign header is rejected')
    else:
        bad = r.get('bad', [])
    return bool(bad), {'native_violations': bad, 'native': r}
