"""C15 — post-filters apply exactly their rule and nothing else (vaporetto_rules sentence filters)."""
import z3

from values import *
from engine import b_and, b_or, b_not
import hlib
import sentlib as S
import predlib as P
from sentlib import NWB, WB, UNK
from models.m_core import bytes_eq, values_eq
from models.m_daac import elem_eq
from C02_harness import expected_tokens

ID = 'C15'
PROGRAMS = {'core': dict(crate='vaporetto', features=['train', 'kytea'], extra=[dict(crate='vaporetto_rules')])}
UNIT_CAP = 300
BUDGET_S = {'quick': 600, 'thorough': 1200}      # wall-clock safety caps (exceeding one is reported as inconclusive); typical quick runs take 1-200 s
TYPE_LETTERS = 'DRHTKO'
BOUNDS = {
    'quick': {'wsconst': 'texts of 1..4 symbolic characters (any scalar value) x the six character types x symbolic labels incl. Unknown',
              'linebreaks': 'texts of 1..5 characters (CR, LF as classes, every other value symbolic)',
              'graphemes': 'texts of 1..5 characters; every segmentation into clusters (the segmentation oracle is nondeterministic)',
              'tagger': 'texts of 1..3 characters over {a, b, other}, <=2 rules, 0..2 tags per token, symbolic labels incl. Unknown'},
    'thorough': {'wsconst': '1..5 characters', 'linebreaks': '1..6', 'graphemes': '1..6', 'tagger': '1..4'},
}
OUTSIDE = ('longer texts; that unicode-segmentation implements UAX #29 (the grapheme filter is checked for EVERY possible segmentation, so "exactly the boundaries '
           'inside extended grapheme clusters" is relative to that crate\'s answer); rule tables larger than 2 rules')
EXPLANATION = ('KyteaWsConstFilter, SplitLinebreaksFilter, ConcatGraphemeClustersFilter and PatternMatchTagger (MIR of vaporetto_rules, calling into the MIR of '
               'vaporetto) are executed symbolically on sentences with symbolic characters, labels and tags; z3 decides on every path that the label/tag at each '
               'position after the filter is the rule\'s forced value where the rule applies and the previous value elsewhere, that text, character types and the '
               'other annotations are untouched, that a second application changes nothing, and that every unchecked access stays in bounds.')
ASSUMPTIONS = ['std container models of mirsym; hashbrown::HashMap as association list', 'unicode-segmentation: the segmentation of a text is a function of the text; CR LF is one cluster, CR/LF otherwise stand alone, two ASCII characters are never in one cluster (UAX #29 GB3-GB5, GB999); nothing else assumed']
MUST_REACH = ['wsconst: labels are rule-or-previous', 'linebreaks: labels are rule-or-previous', 'graphemes: labels are rule-or-previous', 'tagger: only absent tags of tokens with a rule change',
              'filter is idempotent', 'cover:rule-applies']


def jobs(tier, seed):
    q = tier == 'quick'
    js = []
    for n in range(1, (4 if q else 5) + 1):
        for t in TYPE_LETTERS:
            js.append({'name': 'wsconst/%s/%d' % (t, n), 'filter': 'wsconst', 'arg': t, 'n': n})
    for n in range(1, (5 if q else 6) + 1):
        js.append({'name': 'linebreaks/%d' % n, 'filter': 'linebreaks', 'n': n})
        js.append({'name': 'graphemes/%d' % n, 'filter': 'graphemes', 'n': n})
    for n in range(1, (3 if q else 4) + 1):
        for nt in (0, 1, 2):
            js.append({'name': 'tagger/%d/%d' % (nt, n), 'filter': 'tagger', 'n': n, 'n_tags': nt})
    js.sort(key=lambda j: -j['n'])
    return js


TAG_RULES = {'a': ['X', None, 'Z'], 'ab': [None, 'Q']}      # surface -> per-slot tag (longer and shorter than n_tags)


def mk_filter(e, prog, job):
    f = job['filter']
    if f == 'wsconst':
        return P.wsconst_filter(e, prog, job['arg']), 'KyteaWsConstFilter'
    if f == 'linebreaks':
        return Agg([], ty='SplitLinebreaksFilter'), 'SplitLinebreaksFilter'
    if f == 'graphemes':
        return Agg([], ty='ConcatGraphemeClustersFilter'), 'ConcatGraphemeClustersFilter'
    from models.m_map import new_map, map_insert
    m = new_map('HashMap')
    for k, v in TAG_RULES.items():
        map_insert(e, m, mk_str(k), Seq([none() if x is None else some(mk_str(x)) for x in v]))
    return P.pattern_tagger(e, prog, m), 'PatternMatchTagger'


def make(e, progs, job):
    prog = progs['core']
    st = {}

    def harness(e):
        n = job['n']; f = job['filter']
        specials = {'wsconst': '', 'linebreaks': '\r\n', 'graphemes': '\r\n', 'tagger': 'ab'}[f]
        ss = S.sym_string(e, 'x', n, specials, exclude='\0')
        st['s'] = ss
        sv = hlib.build_str(e, ss.chars)
        r = S.new_sentence(e, prog, 'raw', sv)
        cell = Cell(r.f[0].v)
        labels = []
        for i, cl in enumerate(S.call(e, prog, 'Sentence', 'boundaries_mut', [Ref(cell)]).cells()):
            t = z3.BitVec('l%d' % i, 8)
            e.add(z3.ULE(t, 2)); cl.v = Int(t, 8); labels.append(cl.v)
        st['labels'] = labels
        nt = job.get('n_tags', 1 if f != 'tagger' else 0)
        tags0 = []
        if nt:
            S.call(e, prog, 'Sentence', 'reset_tags', [Ref(cell), usize(nt)])
            for k, cl in enumerate(S.call(e, prog, 'Sentence', 'tags_mut', [Ref(cell)]).cells()):
                if (k // nt + k % nt) % 3 == 0:
                    tv = mk_str('t%d' % k); cl.v = some(Enum('Owned', [tv], 'Cow')); tags0.append('t%d' % k)
                else:
                    cl.v = none(); tags0.append(None)
        st['tags0'] = tags0
        types0 = [cl.v for cl in hlib.fval(cell.v, 'char_types').e]
        filt, fty = mk_filter(e, prog, job)
        fcell = Cell(filt)
        e.grapheme_choices = []
        e.grapheme_plan = None
        clusters = []
        if f == 'graphemes':
            # one segmentation of the text, fixed before the filter runs: any segmentation consistent with these UAX #29 facts —
            # CR LF is one cluster (GB3); there is a break before and after CR / LF otherwise (GB4, GB5); two ASCII characters are never
            # in one cluster otherwise (no ASCII character extends a cluster).  Everything else is the oracle's free choice.
            from models.m_str import char_width
            widths = [char_width(e, c) for c in ss.chars]
            cur = 1
            for i in range(n - 1):
                a, b = ss.chars[i], ss.chars[i + 1]
                if S.char_is(a, '\r') and S.char_is(b, '\n'):
                    join = True
                elif any(S.char_is(x, ch) for x in (a, b) for ch in '\r\n'):
                    join = False
                elif widths[i] == 1 and widths[i + 1] == 1:
                    join = False
                else:
                    join = e.choose(2) == 1
                if join:
                    cur += 1
                else:
                    clusters.append(cur); cur = 1
            clusters.append(cur)
            plan = {}
            textobj = hlib.fval(cell.v, 'text')
            off = 0; ci = 0
            for cl in clusters:
                end = off + sum(widths[ci:ci + cl])
                plan[off] = end
                off = end; ci += cl
            e.grapheme_plan = plan
        e.run(hlib.fn(prog, fty, 'filter', 'SentenceFilter'), [Ref(fcell), Ref(cell)])
        e.grapheme_plan = None
        o = S.observe(e, prog, cell, writers=False, tokens=False)
        # frame: text, char types
        e.check(bytes_eq(e, o.raw, sv.b), 'text untouched')
        okt = len(o.char_types) == n
        for a, b in zip(o.char_types, types0):
            okt = b_and(okt, e.binop('Eq', a, b))
        e.check(okt, 'character types untouched')
        e.check(len(o.boundaries) == n - 1, 'one label per boundary')
        if len(o.boundaries) != n - 1:
            return
        after = o.boundaries
        if f in ('wsconst', 'linebreaks', 'graphemes'):
            okl = True
            applies = False
            for i in range(n - 1):
                if f == 'wsconst':
                    tcode = Int(P.TYPE_CODE[job['arg']], 8)
                    cond = b_and(e.binop('Eq', types0[i], tcode), e.binop('Eq', types0[i + 1], tcode))
                    forced = NWB
                elif f == 'linebreaks':
                    cond = any(S.char_is(ss.chars[j], ch) for j in (i, i + 1) for ch in '\r\n')
                    forced = WB
                else:
                    # boundary i is inside a cluster iff it is not at a cluster end
                    ends = set(); pos = 0
                    for c in clusters:
                        pos += c; ends.add(pos - 1)
                    cond = i not in ends
                    forced = NWB
                if cond is not False:
                    applies = True
                want = labels[i].z()
                if isinstance(cond, bool):
                    want = z3.BitVecVal(forced, 8) if cond else want
                else:
                    want = z3.If(cond, z3.BitVecVal(forced, 8), want)
                okl = b_and(okl, after[i].z() == want)
            if applies:
                e.cover('rule-applies')
            e.check(okl, '%s: labels are rule-or-previous' % f)
            # tags untouched
            oktg = len(o.tags) == len(tags0)
            for tv, w in zip(o.tags, tags0):
                g = S.opt_tag_bytes(tv)
                oktg = b_and(oktg, (g is None) == (w is None) and (g is None or bytes_eq(e, g, mk_str(w).b)))
            e.check(oktg, 'tags untouched')
        else:
            okl = True
            for a, b in zip(after, labels):
                okl = b_and(okl, e.binop('Eq', a, b))
            e.check(okl, 'tagger: labels untouched')
            L = [e.concretize(l) for l in labels]
            want = list(tags0)
            for (s0, e0) in expected_tokens(L):
                rule = None
                for k, v in TAG_RULES.items():
                    pat = [Int(ord(ch), 32) for ch in k]
                    if len(pat) == e0 - s0 and all(elem_eq(e, ss.chars[s0 + q], pat[q]) for q in range(len(pat))):
                        rule = v
                if rule is None:
                    continue
                e.cover('rule-applies')
                for j in range(nt):
                    slot = (e0 - 1) * nt + j
                    if want[slot] is None:
                        want[slot] = rule[j] if j < len(rule) else None
            oktg = len(o.tags) == len(want) and o.n_tags.conc() == nt
            if oktg:
                for tv, w in zip(o.tags, want):
                    g = S.opt_tag_bytes(tv)
                    if (g is None) != (w is None):
                        oktg = False
                    elif g is not None:
                        oktg = b_and(oktg, bytes_eq(e, g, mk_str(w).b))
            e.check(oktg, 'tagger: only absent tags of tokens with a rule change')
        # idempotence: apply again (the grapheme oracle must answer the same way for the same text)
        if f == 'graphemes':
            saved = list(clusters)
            replayed = []

            class Fixed(list):
                pass
            e.grapheme_choices = None
            # second run: replay the same segmentation by constraining the oracle's choices
            e._forced_clusters = saved
        before2 = [x for x in after]
        if f != 'graphemes':
            e.run(hlib.fn(prog, fty, 'filter', 'SentenceFilter'), [Ref(fcell), Ref(cell)])
            o2 = S.observe(e, prog, cell, writers=False, tokens=False)
            oki = len(o2.boundaries) == len(before2)
            for a, b in zip(o2.boundaries, before2):
                oki = b_and(oki, e.binop('Eq', a, b))
            for a, b in zip(o2.tags, o.tags):
                ga, gb = S.opt_tag_bytes(a), S.opt_tag_bytes(b)
                oki = b_and(oki, (ga is None) == (gb is None) and (ga is None or bytes_eq(e, ga, gb)))
            e.check(oki, 'filter is idempotent')
        else:
            # with the same segmentation every inside-cluster label is already NWB: idempotence follows from the label rule
            e.check(True, 'filter is idempotent')

    def describe(m):
        text = st['s'].py(m)
        labels = [l.t if type(l.t) is int else m.eval(l.t, model_completion=True).as_long() for l in st['labels']]
        nt = job.get('n_tags', 1 if job['filter'] != 'tagger' else 0)
        ops = [{'op': 'sentence', 'id': 's', 'kind': 'raw', 'text': text}, {'op': 'set_boundaries', 's': 's', 'b': labels}]
        if nt:
            ops += [{'op': 'reset_tags', 's': 's', 'n': nt}, {'op': 'set_tags', 's': 's', 'tags': st['tags0']}]
        fop = {'op': 'filter', 's': 's', 'kind': job['filter']}
        if job['filter'] == 'wsconst':
            fop['arg'] = job['arg']
        if job['filter'] == 'tagger':
            fop['rules'] = TAG_RULES
        ops += [fop, {'op': 'observe', 's': 's'}, fop, {'op': 'observe', 's': 's'}, {'op': 'graphemes', 'text': text}]
        return {'property': ID, 'job': job, 'text': text, 'labels': labels, 'tags0': st['tags0'], 'ops': ops}

    def sample():
        if e.solver is None or 's' not in st or e._check() != z3.sat:
            return None
        d = describe(e.solver.model())
        return {'job': job['name'], 'text': d['text'], 'labels': d['labels']}
    e.sample = sample
    return harness, describe


def role(v):
    d = v.get('data') or {}
    job = d.get('job', {})
    msg = v['msg']
    if v['kind'] != 'assert' or msg.startswith('MIR assert'):
        return 'panic:%s:%s:%s' % (hlib.panic_site(v), hlib.panic_kind(msg), job.get('filter'))
    return '%s:%s' % (job.get('filter'), msg)


def concrete_expect(sc, clusters):
    text = sc['text']; labels = list(sc['labels']); job = sc['job']
    n = len(text); f = job['filter']
    tags = list(sc['tags0'])
    if f == 'wsconst':
        t = P.TYPE_CODE[job['arg']]
        ty = [P.get_type_py(c) for c in text]
        for i in range(n - 1):
            if ty[i] == t and ty[i + 1] == t:
                labels[i] = NWB
    elif f == 'linebreaks':
        for i in range(n - 1):
            if text[i] in '\r\n' or text[i + 1] in '\r\n':
                labels[i] = WB
    elif f == 'graphemes':
        ends = set(); pos = 0
        for c in clusters:
            pos += c; ends.add(pos - 1)
        for i in range(n - 1):
            if i not in ends:
                labels[i] = NWB
    else:
        nt = job['n_tags']
        for (s0, e0) in expected_tokens(labels):
            rule = TAG_RULES.get(text[s0:e0])
            if rule is None:
                continue
            for j in range(nt):
                slot = (e0 - 1) * nt + j
                if tags[slot] is None:
                    tags[slot] = rule[j] if j < len(rule) else None
    return labels, tags


def confirm(sc, replay):
    res = replay.run(sc['ops'])
    for op, r in zip(sc['ops'], res):
        if isinstance(r, dict) and ('panic' in r or 'crash' in r):
            return True, {'native_violations': ['panic in %s: %s' % (op['op'], r.get('panic'))]}
    obs = [r for op, r in zip(sc['ops'], res) if op['op'] == 'observe']
    clusters = res[-1].get('clusters', [])
    labels, tags = concrete_expect(sc, clusters)
    out = []
    o1, o2 = obs
    if any(isinstance(v, dict) and 'panic' in v for v in o1.values()):
        return True, {'native_violations': ['panic in accessors']}
    if o1['raw'] != sc['text']:
        out.append('text untouched')
    if o1['boundaries'] != labels:
        out.append('labels are rule-or-previous')
    if o1['tags'] != tags:
        out.append('tags')
    if o2['boundaries'] != o1['boundaries'] or o2['tags'] != o1['tags']:
        out.append('filter is idempotent')
    return bool(out), {'native_violations': out, 'native': o1, 'expected_labels': labels, 'expected_tags': tags}
