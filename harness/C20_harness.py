"""C20 — the command-line tools agree with the library, line by line (predict: every clause; evaluate: counts and measures)."""
import json
import os
import random
import subprocess
import tempfile
import z3

from values import *
from engine import b_and
import hlib
import sentlib as S
import predlib as P
from models.m_core import bytes_eq
from models.m_io import Writer
from models.m_seq import seq_values
from models.m_str import str_bytes

ID = 'C20'
PROGRAMS = {
    'predict': dict(crate='predict', target='bin', bin_name='predict', extra=[dict(crate='vaporetto'), dict(crate='vaporetto_rules')]),
    'evaluate': dict(crate='evaluate', target='bin', bin_name='evaluate', extra=[dict(crate='vaporetto'), dict(crate='vaporetto_rules')]),
}
UNIT_CAP = 150
BUDGET_S = {'quick': 600, 'thorough': 1200}      # wall-clock safety caps (exceeding one is reported as inconclusive); typical quick runs take 1-200 s

# patterns are over NORMALISED characters (full-width a, b, 1) and hiragana, so that --no-norm changes predictions
SHAPE = {'cw': 2, 'tw': 2, 'char': ['ａ', 'ｂａ', 'あ'], 'type': ['R', 'RH'], 'dict': ['ａあ'],
         'tags': [{'token': 'ａ', 'cands': [['X'], ['p', 'q']], 'char': [('ａ', [0, 1])], 'type': [('R', [0])]},
                  {'token': 'あ', 'cands': [['N', 'V'], []], 'char': [], 'type': []}]}
SPECIALS = 'aｂａあ1ｶ /\\\0'
WSCONSTS = ['', 'R', 'G', 'HD']
WSCONSTS_WB = ['R', 'HD', 'DH', 'RH', 'DRK', 'TKH', 'OD']     # run with the 'wb' weight profile (all boundaries predicted): several filters, in both orders
TYPE_NAME = {'D': 'Digit', 'R': 'Roman', 'H': 'Hiragana', 'T': 'Katakana', 'K': 'Kanji', 'O': 'Other'}

BOUNDS = {
    'quick': {'model': 'one shape (char/type n-grams, dictionary, two tag models) with seeded concrete weights (VERIF_SEED)',
              'input': 'one line of 0..2 characters (predict) over {a, ｂ, ａ, あ, 1, ｶ, space, /, \\, NUL, any other scalar value that is not a key of the normalisation table (symbolic)}, and two lines of 0..2 characters over {a, あ, NUL, space}; evaluate: 1..2 reference lines from a catalogue',
              'wsconst combinations': 'with an all-boundaries weight profile: ' + repr(WSCONSTS_WB) + ' on one line of 0..2 characters over {a, ａ, あ, ア, 人, 1}',
              'flags': 'every combination of --no-norm, --predict-tags, --scores, --tag-scores that clap accepts (a `requires` attribute read from the current source removes --tag-scores without --predict-tags); --wsconst in ' + repr(WSCONSTS)},
    'thorough': {'model': 'same shape, three weight seeds', 'input': '1..3 lines of 0..3 characters', 'flags': 'every combination; --wsconst in ' + repr(WSCONSTS + ['T', 'K', 'O'])},
}
OUTSIDE = ('argument parsing (clap), file opening and zstd decompression are stubbed: main() receives the Args value, the model stream and the lines directly; '
           'lines containing line feeds cannot occur (BufRead::lines); invalid UTF-8 on stdin (lines() yields an error and the tool stops: not a crash, not modelled); '
           'stdout write failures; the train / convert_kytea_model / dict tools (no clause of the property is about them); float formatting of evaluate is compared on the '
           'exact rational value of the counts (Display for f64 is modelled for values in [0,1] and NaN); grapheme clusters follow a fixed deterministic oracle (pairs)')
EXPLANATION = ('main() of the predict and evaluate binaries (MIR of the bin crates merged with the MIR of vaporetto and vaporetto_rules) is executed symbolically with '
               'the process environment replaced by contract stubs: Args::parse returns the flag combination of the job, stdin is a list of symbolic lines, stdout a '
               'byte capture. In the same path the library pipeline (normalise, Sentence::from_raw, predict, filters, fill_tags, transfer of boundaries and tags to the '
               'un-normalised sentence, writers) is run through the public API, and z3/structural reasoning decides that the captured stdout equals the reference '
               'layout built from it: one tokenised line per input line (empty for a rejected line), followed by the optional score block and tag-score block, in '
               'every mode; any panic or error exit of main() is a verdict of its own.')
ASSUMPTIONS = ['clap delivers the flags as given; File/zstd deliver the model stream unchanged', 'BufRead::lines yields each line without its terminator',
               'std::io::Write on stdout does not fail', 'unicode-segmentation is replaced by a deterministic oracle used by both sides',
               'seeded concrete model weights']
MUST_REACH = ['tool exits successfully', 'stdout equals the library pipeline in the reference layout', 'evaluate prints the measures of the library predictions']

EVAL_LINES = ['a あ', 'aあ', 'a/p あ/N', 'ａ/X/p 1', 'a1あ', '1 a', 'あ あ/V']


_TAB = []


def table_keys():
    if not _TAB:
        import C16_harness
        _TAB.append(set(C16_harness.table_from_source()))
    return _TAB[0]


class SeededWeights:
    def __init__(self, seed, bias=None, profile=None):
        self.seed = seed; self.d = {}; self.profile = profile
        if bias is not None:
            self.d['bias'] = bias
        if profile == 'wb':
            self.d['bias'] = 500       # every boundary is predicted as a word boundary: whatever a wsconst filter merges (or fails to merge) is visible

    def __getitem__(self, name):
        if name not in self.d:
            r = random.Random('%s/%s' % (self.seed, name))
            self.d[name] = r.randint(-6, 6) if name != 'bias' else r.randint(-2, 2)
        return self.d[name]


def tag_scores_requires_tags():
    """clap contract read from the current source: does `--tag-scores` declare `requires = "predict_tags"`?  If it does, the combination
    --tag-scores without --predict-tags is rejected by argument parsing (usage error, main's loop is never entered) and is outside the flag space."""
    import re
    src = open(os.path.join(os.environ.get('VERIF_REPO', '/repo'), 'predict/src/main.rs'), encoding='utf-8').read()
    m = re.search(r'#\[arg\(([^\]]*)\)\]\s*tag_scores\s*:', src)
    return bool(m and re.search(r'requires\s*=\s*"predict_tags"', m.group(1)))


def jobs(tier, seed):
    js = []
    req = tag_scores_requires_tags()
    seeds = [seed] if tier == 'quick' else [seed, seed + 1, seed + 2]
    wss = WSCONSTS if tier == 'quick' else WSCONSTS + ['T', 'K', 'O']
    for sd in seeds:
        for flags in range(16):
            no_norm, tags, scores, tscores = bool(flags & 1), bool(flags & 2), bool(flags & 4), bool(flags & 8)
            if tscores and not tags and req:
                continue
            for ws in wss:
                if tier == 'quick' and ws in ('G', 'HD') and (scores or tscores):
                    continue
                for nl in ((1, 2) if tier == 'quick' else (1, 2, 3)):
                    if tier == 'quick' and nl == 2 and ws:
                        continue
                    # one line: the full alphabet; several lines (state reuse across lines): a reduced alphabet
                    alpha = SPECIALS if nl == 1 else ('aあ\0 ' if nl == 2 else 'a\0')
                    maxc = (2 if tier == 'quick' else 3) if nl == 1 else 2
                    js.append({'name': 'predict/s%d/%s%s%s%s/ws%s/l%d' % (sd, 'N' if no_norm else 'n', 'T' if tags else 't', 'S' if scores else 's', 'C' if tscores else 'c', ws or '-', nl),
                               'tool': 'predict', 'prog': 'predict', 'seed': sd, 'no_norm': no_norm, 'predict_tags': tags, 'scores': scores, 'tag_scores': tscores, 'wsconst': ws,
                               'lines': nl, 'maxc': maxc, 'alphabet': alpha, 'closed': nl > 1})
        for ws in WSCONSTS_WB:
            for no_norm in (False, True):
                js.append({'name': 'predict/s%d/%sTsc/ws%s/l1/wb' % (sd, 'N' if no_norm else 'n', ws), 'tool': 'predict', 'prog': 'predict', 'seed': sd, 'no_norm': no_norm,
                           'predict_tags': True, 'scores': False, 'tag_scores': False, 'wsconst': ws, 'lines': 1, 'maxc': 2, 'alphabet': 'aａあア人1', 'closed': True, 'profile': 'wb'})
        for metric in ('char', 'word'):
            for flags in range(4):
                no_norm, tags = bool(flags & 1), bool(flags & 2)
                for ws in (['', 'R'] if tier == 'quick' else wss):
                    for bias in ((None, 9) if tier == 'quick' else (None, 9, -9, 3)):
                        js.append({'name': 'evaluate/s%d/%s/%s%s/ws%s/b%s' % (sd, metric, 'N' if no_norm else 'n', 'T' if tags else 't', ws or '-', bias),
                                   'tool': 'evaluate', 'prog': 'evaluate', 'seed': sd, 'bias': bias, 'metric': metric, 'no_norm': no_norm, 'predict_tags': tags, 'wsconst': ws})
    js.sort(key=lambda j: -(j.get('lines', 1)))
    return js


# ---------------------------------------------------------------------------------------------
def build_env(e, prog, seed, bias=None, profile=None):
    """-> (ModelSpec, serialised model stream elements)"""
    ms = P.fill_model(e, SHAPE, concrete=SeededWeights(seed, bias, profile))
    model = P.build_model(e, prog, ms)
    r = S.call(e, prog, 'Model', 'to_vec', [Ref(Cell(model))])
    if r.var != 'Ok':
        raise Panic('Model::to_vec failed on a well-formed model')
    return ms, list(seq_values(r.f[0].v))


def wsconst_values(prog, ws):
    out = []
    for ch in ws:
        if ch == 'G':
            out.append(Enum('GraphemeCluster', [], 'WsConst'))
        else:
            out.append(Enum('CharType', [Int(P.TYPE_CODE[ch], 8)], 'WsConst'))
    return Seq(out)


def pairs_plan(k, offs):
    """deterministic grapheme oracle shared by both sides: clusters of two characters"""
    return min(k + 2, len(offs) - 1)


def ref_filters(e, prog, cell, ws):
    for ch in ws:
        if ch == 'G':
            e.run(hlib.fn(prog, 'ConcatGraphemeClustersFilter', 'filter', 'SentenceFilter'), [Ref(Cell(Agg([], ty='ConcatGraphemeClustersFilter'))), Ref(cell)])
        else:
            filt = P.wsconst_filter(e, prog, ch)
            e.run(hlib.fn(prog, 'KyteaWsConstFilter', 'filter', 'SentenceFilter'), [Ref(Cell(filt)), Ref(cell)])


def normalise(e, prog, sv):
    f = hlib.fn(prog, 'KyteaFullwidthFilter', 'filter', 'StringFilter')
    return e.run(f, [Ref(Cell(Agg([], ty='KyteaFullwidthFilter'))), hlib.strref_of(sv)], "<KyteaFullwidthFilter as StringFilter<&str>>::filter")


def dec(e, v):
    c = e.concretize(v)
    if v.sg and c >= 1 << (v.bits - 1):
        c -= 1 << v.bits
    return [Int(x, 8) for x in str(c).encode()]


def lit(s):
    return [Int(x, 8) for x in s.encode()]


def reference_output(e, prog, pred, line, job):
    """expected stdout bytes of ONE input line, from the library pipeline through the public API"""
    sv = Str(list(line.b))
    text = sv if job['no_norm'] else normalise(e, prog, sv)
    r = S.new_sentence(e, prog, 'raw', text)
    if r.var != 'Ok':
        return lit('\n'), False
    cell = Cell(r.f[0].v)
    S.call(e, prog, 'Predictor', 'predict', [Ref(pred), Ref(cell)])
    ref_filters(e, prog, cell, job['wsconst'])
    if job['predict_tags']:
        S.call(e, prog, 'Sentence', 'fill_tags', [Ref(cell)])
    if job['no_norm']:
        ocell = cell
    else:
        ro = S.new_sentence(e, prog, 'raw', sv)
        if ro.var != 'Ok':
            raise Panic('the un-normalised line is rejected although its normalised form is accepted')
        ocell = Cell(ro.f[0].v)
        nt = S.call(e, prog, 'Sentence', 'n_tags', [Ref(cell)])
        S.call(e, prog, 'Sentence', 'reset_tags', [Ref(ocell), nt])
        src_b = S.seq_vals(S.call(e, prog, 'Sentence', 'boundaries', [Ref(cell)]))
        dst_b = S.call(e, prog, 'Sentence', 'boundaries_mut', [Ref(ocell)]).cells()
        if len(src_b) != len(dst_b):
            raise Panic('normalisation changed the number of characters')
        for cl, v in zip(dst_b, src_b):
            cl.v = v
        src_t = S.seq_vals(S.call(e, prog, 'Sentence', 'tags', [Ref(cell)]))
        dst_t = S.call(e, prog, 'Sentence', 'tags_mut', [Ref(ocell)]).cells()
        if len(src_t) != len(dst_t):
            raise Panic('tag matrices of the two sentences differ in size')
        for cl, v in zip(dst_t, src_t):
            cl.v = e.clone_value(v) if hasattr(e, 'clone_value') else v
    buf = Cell(mk_str('stale'))
    S.call(e, prog, 'Sentence', 'write_tokenized_text', [Ref(ocell), Ref(buf)])
    out = list(buf.v.b) + lit('\n')
    if job['scores']:
        raw = str_bytes(S.call(e, prog, 'Sentence', 'as_raw_text', [Ref(cell)]))
        chars = S.chars_of_bytes(e, raw)
        scores = S.seq_vals(S.call(e, prog, 'Sentence', 'boundary_scores', [Ref(cell)]))
        from models.m_str import encode_char
        for i, sc in enumerate(scores[:max(0, len(chars) - 1)]):
            out += lit('%d:' % i) + encode_char(e, chars[i]) + encode_char(e, chars[i + 1]) + lit(' ') + dec(e, sc) + lit('\n')
        out += lit('\n')
    if job['tag_scores']:
        it = Cell(S.call(e, prog, 'Sentence', 'iter_tokens', [Ref(cell)]))
        while True:
            nx = S.call(e, prog, 'TokenIterator', 'next', [Ref(it)], 'Iterator')
            if nx.var == 'None':
                break
            tok = Cell(nx.f[0].v)
            out += list(str_bytes(S.call(e, prog, 'Token', 'surface', [Ref(tok)])))
            cands = S.call(e, prog, 'Token', 'tag_candidates', [Ref(tok)])
            for cl in seq_values(cands):
                out += lit('\t')
                for k, pair in enumerate(seq_values(cl)):
                    if k:
                        out += lit(',')
                    out += list(str_bytes(pair.f[0].v)) + lit(':') + dec(e, pair.f[1].v)
            out += lit('\n')
        out += lit('\n')
    return out, True


def make(e, progs, job):
    st = {}
    if job['tool'] == 'evaluate':
        return make_evaluate(e, progs, job, st)
    prog = progs['predict']

    def harness(e):
        ms, stream = e.memo(('model', job['seed'], job.get('profile')), lambda: build_env(e, prog, job['seed'], None, job.get('profile')))
        st['ms'] = ms
        lines = []
        for li in range(job['lines']):
            n = S.sym_len(e, 'n%d' % li, 0, job['maxc'])
            if job.get('closed'):
                ss = S.SymStr()
                for ci in range(n):
                    k = e.choose(len(job['alphabet']))
                    ss.chars.append(Int(ord(job['alphabet'][k]), 32, False, ('char',))); ss.vars.append(None)
            else:
                ss = S.sym_string(e, 'l%d_' % li, n, job['alphabet'], exclude='\n' + ''.join(k for k in sorted(table_keys()) if k not in job['alphabet']))
            lines.append(ss)
        st['lines'] = lines
        strs = [hlib.build_str(e, ss.chars) for ss in lines]
        out = Writer()
        args = P.mk_struct(prog, 'Args', model=Opaque('path', rt='PathBuf'), predict_tags=job['predict_tags'], wsconst=wsconst_values(prog, job['wsconst']),
                           scores=job['scores'], tag_scores=job['tag_scores'], no_norm=job['no_norm'])
        e.cli = {'args': args, 'model_stream': stream, 'lines': strs, 'out': out, 'tty': False}
        e.grapheme_plan = pairs_plan
        e.call_memo = {'Predictor::new': ('main', job['seed'], job.get('profile'), job['predict_tags'])}
        r = e.call('main', [])
        e.call_memo = None
        e.check(r.var == 'Ok', 'tool exits successfully')
        if r.var != 'Ok':
            return
        # reference: a fresh predictor of the same model, the library pipeline line by line
        want_tags = job['predict_tags']
        def mkpred():
            model = P.build_model(e, prog, ms)
            rp = P.new_predictor(e, prog, model, want_tags)
            if rp.var != 'Ok':
                raise Panic('Predictor::new rejected a well-formed model')
            pc = Cell(rp.f[0].v)
            if job['tag_scores']:
                S.call(e, prog, 'Predictor', 'store_tag_scores', [Ref(pc), True])
            return pc
        pred = e.memo(('pred', job['seed'], job.get('profile'), want_tags, job['tag_scores']), mkpred)
        exp = []
        accepted = []
        for sv in strs:
            o, acc = reference_output(e, prog, pred, sv, job)
            exp.append(o); accepted.append(acc)
        st['accepted'] = accepted
        # a rejected line is an empty line; whether its (necessarily empty) optional blocks are printed is not fixed by the property: both forms are accepted
        nblocks = int(job['scores']) + int(job['tag_scores'])
        alts = [[]]
        for o, acc in zip(exp, accepted):
            if acc or not nblocks:
                alts = [a + o for a in alts]
            else:
                alts = [a + o for a in alts] + [a + o + lit('\n') * nblocks for a in alts]
        st['exp'] = alts[0]; st['got'] = list(out.out)
        okk = False
        for a in alts:
            if len(out.out) == len(a):
                r1 = bytes_eq(e, out.out, a)
                if r1 is True:
                    okk = True; break
                if r1 is not False:
                    okk = r1 if okk is False else z3.Or(okk, r1)
        e.check(okk, 'stdout equals the library pipeline in the reference layout')

    def describe(m):
        lines = [ss.py(m) for ss in st.get('lines', [])]
        mj = P.model_json(st['ms'], m) if 'ms' in st else None
        def txt(bs):
            try:
                return bytes(hlib.py_bytes(e, bs, m)).decode('utf-8', 'replace') if bs is not None else None
            except Exception as ex:
                return 'n/a (%s)' % ex
        return {'property': ID, 'job': job, 'model': mj, 'lines': lines, 'flags': flags_of(job), 'expected': txt(st.get('exp')), 'engine_stdout': txt(st.get('got')), 'ops': [{'op': 'model', 'id': 'm', 'data': mj}, {'op': 'model_dump', 'model': 'm'}]}

    def sample():
        if e.solver is None or 'lines' not in st or e._check() != z3.sat:
            return None
        m = e.solver.model()
        return {'job': job['name'], 'lines': [ss.py(m) for ss in st['lines']]}
    e.sample = sample
    return harness, describe


def flags_of(job):
    fl = []
    if job.get('no_norm'):
        fl.append('--no-norm')
    if job.get('predict_tags'):
        fl.append('--predict-tags')
    if job.get('scores'):
        fl.append('--scores')
    if job.get('tag_scores'):
        fl.append('--tag-scores')
    for ch in job.get('wsconst', ''):
        fl += ['--wsconst', ch]
    if job.get('metric'):
        fl += ['--metric', job['metric']]
    return fl


# ---------------------------------------------------------------------------------------------
# evaluate
def fmt_f64(num, den):
    """Rust's Display for the f64 num/den (counts are small non-negative integers)"""
    if den == 0:
        return 'NaN' if num == 0 else 'inf'
    return rust_float(num / den)


def rust_float(x):
    if x != x:
        return 'NaN'
    if x in (float('inf'), float('-inf')):
        return 'inf' if x > 0 else '-inf'
    r = repr(float(x))
    if 'e' in r or 'E' in r:
        from decimal import Decimal
        r = format(Decimal(r), 'f')
    if r.endswith('.0'):
        r = r[:-2]
    return r


def make_evaluate(e, progs, job, st):
    prog = progs['evaluate']

    def harness(e):
        ms, stream = e.memo(('model', job['seed'], job.get('bias')), lambda: build_env(e, prog, job['seed'], job.get('bias')))
        st['ms'] = ms
        nl = 1 + e.choose(2)
        idx = [e.choose(len(EVAL_LINES)) for _ in range(nl)]
        lines = [EVAL_LINES[i] for i in idx]
        st['lines'] = lines
        out = Writer()
        metric = Int(0 if job['metric'] == 'char' else 1, 64, True)
        args = P.mk_struct(prog, 'Args', model=Opaque('path', rt='PathBuf'), predict_tags=job['predict_tags'], wsconst=wsconst_values(prog, job['wsconst']),
                           no_norm=job['no_norm'], metric=metric)
        e.cli = {'args': args, 'model_stream': stream, 'lines': [mk_str(x) for x in lines], 'out': out, 'tty': False, 'print_to_out': True}
        e.grapheme_plan = pairs_plan
        e.call_memo = {'Predictor::new': ('main', job['seed'], job.get('bias'), job['predict_tags'])}
        r = e.call('main', [])
        e.call_memo = None
        e.check(r.var == 'Ok', 'tool exits successfully')
        if r.var != 'Ok':
            return
        def mkpred():
            model = P.build_model(e, prog, ms)
            rp = P.new_predictor(e, prog, model, job['predict_tags'])
            if rp.var != 'Ok':
                raise Panic('Predictor::new rejected a well-formed model')
            return Cell(rp.f[0].v)
        pred = e.memo(('pred', job['seed'], job.get('bias'), job['predict_tags']), mkpred)
        res = []
        for ln in lines:
            rs = S.new_sentence(e, prog, 'tokenized', mk_str(ln))
            cell = Cell(rs.f[0].v)
            rb = [e.concretize(x) for x in S.seq_vals(S.call(e, prog, 'Sentence', 'boundaries', [Ref(cell)]))]
            n_ref = S.call(e, prog, 'Sentence', 'n_tags', [Ref(cell)]).conc()
            rt_all = [S.opt_tag_bytes(x) for x in S.seq_vals(S.call(e, prog, 'Sentence', 'tags', [Ref(cell)]))]
            rt = [tags_key(e, rt_all[i * n_ref:(i + 1) * n_ref]) for i in range(len(rb) + 1)]
            if not job['no_norm']:
                raw = S.call(e, prog, 'Sentence', 'as_raw_text', [Ref(cell)])
                norm = normalise(e, prog, Str(list(str_bytes(raw))))
                cell = Cell(S.new_sentence(e, prog, 'raw', norm).f[0].v)
            S.call(e, prog, 'Predictor', 'predict', [Ref(pred), Ref(cell)])
            ref_filters(e, prog, cell, job['wsconst'])
            if job['predict_tags']:
                S.call(e, prog, 'Sentence', 'fill_tags', [Ref(cell)])
            sb = [e.concretize(x) for x in S.seq_vals(S.call(e, prog, 'Sentence', 'boundaries', [Ref(cell)]))]
            n_sys = S.call(e, prog, 'Sentence', 'n_tags', [Ref(cell)]).conc()
            st_all = [S.opt_tag_bytes(x) for x in S.seq_vals(S.call(e, prog, 'Sentence', 'tags', [Ref(cell)]))]
            stg = [tags_key(e, st_all[i * n_sys:(i + 1) * n_sys]) for i in range(len(sb) + 1)]
            res.append((rb, rt, sb, stg))
        if job['metric'] == 'char':
            tp = tn = fp = fn_ = 0
            for rb, _, sb, _ in res:
                for r_, h in zip(rb, sb):
                    if r_ == h:
                        if h == 1:
                            tp += 1
                        else:
                            tn += 1
                    elif h == 1:
                        fp += 1
                    else:
                        fn_ += 1
            text = 'Precision: %s\nRecall: %s\nF1: %s\nTP: %d, TN: %d, FP: %d, FN: %d\n' % (
                fmt_f64(tp, tp + fp), fmt_f64(tp, tp + fn_), f1_text(tp, tp + fp, tp + fn_), tp, tn, fp, fn_)
        else:
            n_sys = n_ref = n_cor = 0
            for rb, rt, sb, stg in res:
                # words of each side as (start, end, tags); a system word is correct iff the same span with the same tags is a reference word
                rw = words(rb, rt); sw = words(sb, stg)
                n_ref += len(rw); n_sys += len(sw)
                n_cor += len([w for w in sw if w in rw])
            text = 'Precision: %s\nRecall: %s\nF1: %s\n' % (fmt_f64(n_cor, n_sys), fmt_f64(n_cor, n_ref), f1_text(n_cor, n_sys, n_ref))
        st['exp'] = text
        got = out.out
        exp = lit(text)
        try:
            st['got'] = bytes(b.conc() for b in got).decode('utf-8', 'replace')
        except Exception as ex:
            st['got'] = 'n/a (%s: %s) %r' % (type(ex).__name__, ex, got[:40])
        if os.environ.get('C20_DEBUG'):
            print('EXP', repr(text)); print('GOT', repr(st['got']))
        # the property is about the numbers (counts, precision, recall, F1), not the wording around them: compare the numeric tokens in order
        e.check(same_numbers(st['got'], text), 'evaluate prints the measures of the library predictions')

    def describe(m):
        mj = P.model_json(st['ms'], m) if 'ms' in st else None
        return {'property': ID, 'job': job, 'model': mj, 'lines': st.get('lines'), 'flags': flags_of(job), 'expected': st.get('exp'), 'engine_stdout': st.get('got'),
                'ops': [{'op': 'model', 'id': 'm', 'data': mj}, {'op': 'model_dump', 'model': 'm'}]}

    def sample():
        return {'job': job['name'], 'lines': st.get('lines')}
    e.sample = sample
    return harness, describe


_NUM = None


def numbers(text):
    import re
    global _NUM
    if _NUM is None:
        _NUM = re.compile(r'NaN|-?inf\b|(?<![A-Za-z0-9_.])-?\d+(?:\.\d+)?(?:[eE][+-]?\d+)?')
    out = []
    for t in _NUM.findall(text or ''):
        out.append(float('nan') if t == 'NaN' else float(t))
    return out


def same_numbers(got, want):
    a, b = numbers(got if isinstance(got, str) else ''), numbers(want)
    if len(a) != len(b):
        return False
    for x, y in zip(a, b):
        if x != x or y != y:
            if not (x != x and y != y):
                return False
        elif x != y and abs(x - y) > 1e-12 * max(1.0, abs(y)):
            return False
    return True


def tags_key(e, tags):
    out = []
    for t in tags:
        if t is None:
            out.append(None)
        else:
            out.append(bytes(e.concretize(b) for b in t))
    return tuple(out)


def words(bs, tags):
    out = []
    start = 0
    for i, b in enumerate(bs):
        if b == 1:
            out.append((start, i + 1, tags[i])); start = i + 1
    out.append((start, len(bs) + 1, tags[len(bs)]))
    return out


def f1_text(cor, nsys, nref):
    """2pr/(p+r) evaluated in f64 like the tool (NaN propagates)"""
    def div(a, b):
        if b == 0:
            return float('nan') if a == 0 or a != a else (float('inf') if a > 0 else float('-inf'))
        return a / b
    p = div(float(cor), float(nsys)); r = div(float(cor), float(nref))
    num = 2. * p * r
    den = p + r
    if num != num or den != den:
        return 'NaN'
    return rust_float(div(num, den))


# ---------------------------------------------------------------------------------------------
def role(v):
    d = v.get('data') or {}
    job = d.get('job', {})
    msg = v['msg']
    fl = ''.join(x for x, k in (('N', 'no_norm'), ('T', 'predict_tags'), ('S', 'scores'), ('C', 'tag_scores')) if job.get(k))
    if v['kind'] != 'assert' or msg.startswith('MIR assert'):
        return 'panic:%s:%s:%s' % (job.get('tool'), hlib.panic_site(v), hlib.panic_kind(msg))
    return '%s:%s:%s' % (job.get('tool'), msg, fl or '-')


CLI_TARGET = os.environ.get('VERIF_CLI_TARGET', '/var/tmp/vpverif-target-cli')
_cli_built = {}


def build_cli(tool):
    if tool in _cli_built:
        return _cli_built[tool]
    env = dict(os.environ)
    env['CARGO_NET_OFFLINE'] = 'true'; env['CARGO_TARGET_DIR'] = CLI_TARGET
    env.pop('RUSTFLAGS', None)
    p = subprocess.run(['cargo', 'build', '--offline', '--quiet', '-p', tool], cwd='/repo', env=env, stdout=subprocess.PIPE, stderr=subprocess.PIPE)
    if p.returncode != 0:
        raise RuntimeError('cannot build %s: %s' % (tool, p.stderr.decode()[-2000:]))
    _cli_built[tool] = os.path.join(CLI_TARGET, 'debug', tool)
    return _cli_built[tool]


def zstd_raw_frame(data):
    """a valid zstd frame holding `data` in raw (uncompressed) blocks — no compressor needed"""
    out = bytearray(b'\x28\xb5\x2f\xfd\x00\x58')
    chunks = [data[i:i + 65536] for i in range(0, len(data), 65536)] or [b'']
    for k, ch in enumerate(chunks):
        hdr = (len(ch) << 3) | (1 if k == len(chunks) - 1 else 0)
        out += hdr.to_bytes(3, 'little') + ch
    return bytes(out)


def run_tool(tool, model_bytes, flags, lines):
    exe = build_cli(tool)
    d = tempfile.mkdtemp(prefix='vpverif-cli.', dir='/var/tmp')
    try:
        mp = os.path.join(d, 'model.zst')
        with open(mp, 'wb') as f:
            f.write(zstd_raw_frame(model_bytes))
        p = subprocess.run([exe, '--model', mp] + flags, input=''.join(x + '\n' for x in lines).encode('utf-8'), stdout=subprocess.PIPE, stderr=subprocess.PIPE, timeout=60)
        return p.returncode, p.stdout, p.stderr.decode('utf-8', 'replace')
    finally:
        import shutil
        shutil.rmtree(d, ignore_errors=True)


def native_reference(replay, sc):
    """expected stdout of predict from the library (replay driver ops), in the reference layout"""
    job = sc['job']
    outs = []
    for line in sc['lines']:
        ops = [{'op': 'model', 'id': 'm', 'data': sc['model']},
               {'op': 'predictor', 'id': 'p', 'model': 'm', 'tags': job['predict_tags'], 'store_scores': job['tag_scores']}]
        text = line
        if not job['no_norm']:
            text = replay.run([{'op': 'fullwidth', 'text': line}])[0]['out']
        if text == '' or '\0' in text:
            outs.append(('\n', False)); continue
        ops += [{'op': 'sentence', 'id': 's', 'kind': 'raw', 'text': text}, {'op': 'predict', 's': 's', 'p': 'p'}]
        for ch in job['wsconst']:
            ops.append({'op': 'filter', 's': 's', 'kind': 'graphemes'} if ch == 'G' else {'op': 'filter', 's': 's', 'kind': 'wsconst', 'arg': ch})
        if job['predict_tags']:
            ops.append({'op': 'fill_tags', 's': 's'})
        ops.append({'op': 'observe', 's': 's', 'cands': bool(job['tag_scores'])})
        res = replay.run(ops)
        ob = res[-1]
        if any(isinstance(x, dict) and 'panic' in x for x in res):
            return None
        if job['no_norm']:
            tok = ob['tokenized']
        else:
            ops2 = [{'op': 'sentence', 'id': 'o', 'kind': 'raw', 'text': line}, {'op': 'reset_tags', 's': 'o', 'n': ob['n_tags']},
                    {'op': 'set_boundaries', 's': 'o', 'b': ob['boundaries']}, {'op': 'set_tags', 's': 'o', 'tags': ob['tags']}, {'op': 'observe', 's': 'o'}]
            tok = replay.run(ops2)[-1]['tokenized']
        o = tok + '\n'
        if job['scores']:
            for i, scv in enumerate(ob['scores'][:max(0, len(text) - 1)]):
                o += '%d:%s%s %d\n' % (i, text[i], text[i + 1], scv)
            o += '\n'
        if job['tag_scores']:
            if 'tag_candidates' not in ob or not isinstance(ob['tag_candidates'], list):
                return None
            for t, layers in zip(ob['tokens'], ob['tag_candidates']):
                o += t['surface']
                for layer in layers:
                    o += '\t' + ','.join('%s:%d' % (n, scv) for n, scv in layer)
                o += '\n'
            o += '\n'
        outs.append((o, True, ob))
    return outs


def confirm(sc, replay):
    job = sc['job']
    res = replay.run(sc['ops'])
    mb = res[-1]
    data = bytes(mb['bytes']) if isinstance(mb, dict) and 'bytes' in mb else None
    if data is None:
        return False, {'native': mb}
    rc, out, err = run_tool(job['tool'], data, sc['flags'], sc['lines'])
    bad = []
    if rc != 0:
        bad.append('tool exits successfully: exit status %d, stderr: %s' % (rc, err[-300:]))
        return True, {'native_violations': bad}
    text = out.decode('utf-8', 'replace')
    if job['tool'] == 'evaluate':
        if not same_numbers(text, sc.get('expected') or ''):
            bad.append('evaluate printed %r, the library predictions give %r' % (text, sc.get('expected')))
        return bool(bad), {'native_violations': bad}
    outs = native_reference(replay, sc)
    if outs is None:
        return False, {'native': 'library pipeline panicked natively'}
    nblocks = int(job['scores']) + int(job['tag_scores'])
    alts = ['']
    for o in outs:
        if o[1] or not nblocks:
            alts = [a + o[0] for a in alts]
        else:
            alts = [a + o[0] for a in alts] + [a + o[0] + '\n' * nblocks for a in alts]
    if text not in alts:
        bad.append('stdout %r differs from the reference layout of the library pipeline %r' % (text[:200], alts[0][:200]))
    return bool(bad), {'native_violations': bad}


VALIDATION_PROG = 'predict'
_VE = {}


def validation_cases(tier, seed):
    cs = []
    rnd = random.Random(seed + 77)
    pool = 'aｂａあ1 /\\xｶ'
    for k in range(6 if tier == 'quick' else 16):
        flags = rnd.randrange(16)
        cs.append({'tool': 'predict', 'seed': seed, 'no_norm': bool(flags & 1), 'predict_tags': True if flags & 8 else bool(flags & 2), 'scores': bool(flags & 4), 'tag_scores': bool(flags & 8),
                   'wsconst': rnd.choice(['', 'R', 'H']), 'lines_text': [''.join(rnd.choice(pool) for _ in range(rnd.randint(1, 4))) for _ in range(rnd.randint(1, 3))]})
    for k in range(2 if tier == 'quick' else 6):
        cs.append({'tool': 'evaluate', 'seed': seed, 'metric': rnd.choice(['char', 'word']), 'no_norm': bool(k & 1), 'predict_tags': bool(k & 2), 'wsconst': '',
                   'lines_text': [rnd.choice(EVAL_LINES) for _ in range(rnd.randint(1, 3))]})
    return cs


def validate_case(e0, progs, replay, case):
    """engine validation: stdout of main() executed in the engine on concrete input equals stdout of the real binary"""
    from engine import Engine
    prog = progs[case['tool']]
    e = _VE.get(case['tool'])
    if e is None:
        e = _VE[case['tool']] = Engine(prog)
    got = {}

    def h(e):
        ms, stream = build_env(e, prog, case['seed'])
        got['ms'] = ms
        out = Writer()
        if case['tool'] == 'predict':
            args = P.mk_struct(prog, 'Args', model=Opaque('path', rt='PathBuf'), predict_tags=case['predict_tags'], wsconst=wsconst_values(prog, case['wsconst']),
                               scores=case['scores'], tag_scores=case['tag_scores'], no_norm=case['no_norm'])
        else:
            args = P.mk_struct(prog, 'Args', model=Opaque('path', rt='PathBuf'), predict_tags=case['predict_tags'], wsconst=wsconst_values(prog, case['wsconst']),
                               no_norm=case['no_norm'], metric=Int(0 if case['metric'] == 'char' else 1, 64, True))
        e.cli = {'args': args, 'model_stream': stream, 'lines': [mk_str(x) for x in case['lines_text']], 'out': out, 'tty': False, 'print_to_out': True}
        e.grapheme_plan = None
        r = e.call('main', [])
        got['ok'] = r.var == 'Ok'
        got['out'] = bytes(b.conc() for b in out.out)
    e.violations = []
    e.explore(h)
    if e.violations:
        got['violation'] = e.violations[0]['msg']
    mj = P.model_json(got['ms'], None)
    res = replay.run([{'op': 'model', 'id': 'm', 'data': mj}, {'op': 'model_dump', 'model': 'm'}])
    data = bytes(res[-1]['bytes'])
    rc, out, err = run_tool(case['tool'], data, flags_of(case), case['lines_text'])
    same = (rc == 0) == bool(got.get('ok')) and ('violation' in got or out == got.get('out'))
    if 'violation' in got:
        same = rc != 0
    if same:
        return None
    return {'case': case, 'engine': {'ok': got.get('ok'), 'violation': got.get('violation'), 'out': (got.get('out') or b'').decode('utf-8', 'replace')},
                  'native': {'rc': rc, 'out': out.decode('utf-8', 'replace'), 'err': err[-200:]}}
