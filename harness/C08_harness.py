"""C08 — reusing a sentence or sharing a predictor never changes results.

hist/<history>/<final predictor>/n : a sentence object is driven through a bounded history of public operations
(concrete representative data), then update_raw(x); predict(P); [fill_tags] with a symbolic text x; the same
final triple runs on a fresh Sentence::from_raw(x) in the same path; every public observation must be equal.
In every path the predictor value is snapshotted before and after: predict/predict_tags must not modify it
(the sequential core of the "shared between threads" clause; real interleavings are outside this technique).
"""
import itertools
import z3

from values import *
from engine import b_and
import hlib
import sentlib as S
import predlib as P
from models.m_core import bytes_eq, values_eq

ID = 'C08'
PROGRAMS = {'core': dict(crate='vaporetto', features=['train', 'kytea'], extra=[dict(crate='vaporetto_rules')])}
UNIT_CAP = 150
BUDGET_S = {'quick': 600, 'thorough': 1200}      # wall-clock safety caps (exceeding one is reported as inconclusive); typical quick runs take 1-200 s

SHAPE_A = {'cw': 2, 'tw': 2, 'char': ['a', 'ba'], 'type': ['R'],
           'tags': [{'token': 'a', 'cands': [['X'], ['p', 'q']], 'char': [('ba', [0, 1]), ('a', [1])], 'type': [('RR', [0, 1]), ('R', [1, 2])]},
                    {'token': 'ab', 'cands': [['N', 'V']], 'char': [('b', [0])], 'type': []}]}
SHAPE_B = {'cw': 3, 'tw': 1, 'char': ['b', 'ab'], 'dict': ['a']}
PREDICTORS = {
    'A': (SHAPE_A, True, False),        # tags, no score storing
    'As': (SHAPE_A, True, True),        # tags, score storing
    'B': (SHAPE_B, True, False),        # predict_tags=true but the model has no tag models
    'Bn': (SHAPE_B, False, False),      # predict_tags=false (fill_tags is not called after it: documented panic)
}
OPS = {
    'raw': ('update', 'raw', 'ab'),
    'tok': ('update', 'tokenized', 'a/x b//y'),
    'part': ('update', 'partial', 'a/t-b|c'),
    'fail': ('update', 'raw', ''),
    'failtok': ('update', 'tokenized', 'a  b'),
    'pA': ('predict', 'A'), 'pAs': ('predict', 'As'), 'pB': ('predict', 'B'), 'pBn': ('predict', 'Bn'),
    'fill': ('fill_tags',),
    'reset2': ('reset_tags', 2), 'reset0': ('reset_tags', 0),
    'ws': ('filter', 'wsconst'), 'tagger': ('filter', 'tagger'),
}
QUICK_HISTORIES = [(), ('raw',), ('tok',), ('part',), ('fail',), ('reset2',), ('pA',), ('pAs',), ('pB',), ('ws',), ('tagger',),
                   ('tok', 'pA'), ('tok', 'pAs'), ('pA', 'fill'), ('pAs', 'fill'), ('pAs', 'pB'), ('pB', 'fill'), ('part', 'fill'),
                   ('reset2', 'pB'), ('fail', 'pA'), ('pAs', 'fail'), ('tok', 'tagger'), ('pA', 'ws'), ('pBn', 'pAs'), ('failtok', 'reset2'),
                   ('raw', 'pAs', 'fill'), ('tok', 'pAs', 'fill'), ('pAs', 'fill', 'pB'), ('pAs', 'fill', 'fail'), ('pA', 'fill', 'reset2')]
FINALS = ['A', 'As', 'B']
STALE_UPDATES_DOC = 'raw abab / b, tokenized "a b a/x b" / "ab ab a", partial "a|b-a b a" / "a/t|b-a|a"'
BOUNDS = {
    'quick': {'histories': [' '.join(h) or '(none)' for h in QUICK_HISTORIES], 'final text': '1..3 symbolic characters over {a, b, any other scalar value}', 'final predictors': FINALS},
    'thorough': {'histories': 'every sequence of <=2 operations of the alphabet %s plus the quick list' % sorted(OPS), 'final text': '1..4 symbolic characters', 'final predictors': FINALS},
}
OUTSIDE = ('longer histories; history data other than the representative strings (the final text is symbolic); real thread interleavings (only "predict does not modify '
           'the predictor" is decided, plus a compile-time Send+Sync assertion; the step from there to schedule independence is an argument)')
EXPLANATION = ('The update_*/predict/fill_tags/reset_tags/filter operations are executed symbolically (MIR) along bounded histories on one Sentence object, followed by '
               'update_raw(x); predict; fill_tags with symbolic x; a fresh Sentence::from_raw(x) takes the same final steps in the same path and z3 decides that '
               'scores, labels, tags, tag count, tokens, both written formats and (when score storing is on) tag candidates are equal; the predictor is '
               'snapshotted around every predict/fill_tags and must be unmodified.')
ASSUMPTIONS = ['daachorse contract model; std container models of mirsym', 'history operations use representative concrete data and the two models have concrete weights drawn from VERIF_SEED; only the final text is symbolic',
               'tag_candidates() is compared only when the final predictor stores scores and has tag models (otherwise its documented behaviour is to panic)']
MUST_REACH = ['reused sentence equals fresh sentence', 'predict does not modify the predictor', 'cover:history-with-stored-scores']


def histories(tier):
    hs = list(QUICK_HISTORIES)
    if tier == 'thorough':
        for k in (1, 2):
            for h in itertools.product(sorted(OPS), repeat=k):
                if h not in hs and valid_history(h):
                    hs.append(h)
    return [h for h in hs if valid_history(h)]


def valid_history(h):
    last_pred = None
    for op in h:
        o = OPS[op]
        if o[0] == 'predict':
            last_pred = o[1]
        elif o[0] == 'update':
            last_pred = None
        elif o[0] == 'fill_tags':
            if last_pred == 'Bn':
                return False        # documented panic: fill_tags on a predictor created with predict_tags=false
    return True


def jobs(tier, seed):
    js = []
    deep = {('pAs', 'fill'), ('tok', 'pAs', 'fill'), ('pAs', 'fill', 'pB'), ('tok',), ('pAs', 'fill', 'fail'), ('part', 'fill')}
    for h in histories(tier):
        for fin in FINALS:
            for n in range(1, (3 if tier == 'quick' else 4) + 1):
                if tier == 'quick':
                    stored = 'pAs' in h         # the history left stored tag scores behind: the tagging predictor without score storing must cope with them
                    if fin == 'A' and not stored and (n > 1 or len(h) > 1):
                        continue
                    if n == 3 and not ((h in deep and fin == 'As') or (stored and fin == 'A' and 'fill' in h)):
                        continue
                js.append({'name': 'hist/%s/%s/n%d' % ('+'.join(h) or 'none', fin, n), 'hist': list(h), 'final': fin, 'n': n, 'seed': seed})
                if fin in ('A', 'As') and n == 2 and any(op in ('pA', 'pAs', 'pB') for op in h):
                    # the same history with the 'wb' weight profile (every character its own token, distinct prime tag weights)
                    js.append({'name': 'hist/%s/%s/n%d/wb' % ('+'.join(h), fin, n), 'hist': list(h), 'final': fin, 'n': n, 'seed': seed, 'profile': 'wb'})
    js.sort(key=lambda j: -j['n'])
    return js


def c18_jobs(tier, seed):
    """states that are reachable through the public API but lie outside C08's quantifier (which always ends with update_raw; predict; fill_tags):
    only the obligations of unchecked operations are judged on them, by C18"""
    js = []
    # predict again on an already predicted sentence (no update in between)
    for p1 in FINALS:
        for p2 in FINALS:
            for n in ((1, 2) if tier == 'quick' else (1, 2, 3)):
                for fill1 in ((False,) if tier == 'quick' and p1 != 'As' else (False, True)):
                    js.append({'name': 'repredict/%s%s/%s/n%d' % (p1, '+fill' if fill1 else '', p2, n), 'kind': 'repredict', 'hist': ['p' + p1] + (['fill'] if fill1 else []) + ['(no update)'],
                               'p1': p1, 'fill1': fill1, 'final': p2, 'n': n, 'seed': seed})
    # fill_tags after an update that was NOT followed by a prediction: the update must have dropped everything the tagger reads
    for p in ('A', 'As'):
        for kind, text in STALE_UPDATES:
            js.append({'name': 'stalefill/%s/%s/%s' % (p, kind, text.replace(' ', '_').replace('/', '%')), 'kind': 'stalefill', 'hist': ['raw', 'p' + p, 'update-%s(no predict)' % kind],
                       'p1': p, 'final': p, 'ukind': kind, 'utext': text, 'n': 0, 'seed': seed})
    js.sort(key=lambda j: -j['n'])
    return js


STALE_UPDATES = [('raw', 'abab'), ('raw', 'b'), ('tokenized', 'a b a/x b'), ('tokenized', 'ab ab a'), ('partial', 'a|b-a b a'), ('partial', 'a/t|b-a|a')]


_PRIMES = [2, 3, 5, 7, 11, 13, 17, 19, 23, 29, 31, 37, 41, 43, 47, 53, 59, 61, 67, 71, 73, 79, 83, 89, 97, 101, 103, 107, 109, 113, 127, 131, 137, 139, 149, 151, 157, 163, 167, 173]


class SeededWeights(dict):
    """concrete model weights: C08 quantifies over histories, not over models.  Profile 'seeded' draws them from VERIF_SEED; profile 'wb' makes every
    boundary a word boundary (large bias) and gives every tag weight a distinct prime, so that single-character tokens occur and every tag feature that
    fires (or wrongly fires from stale state) changes a stored score"""
    def __init__(self, seed, profile='seeded'):
        import random
        dict.__init__(self); self.rnd = random.Random(seed * 7 + 1); self.profile = profile; self.np = 0

    def __missing__(self, k):
        if self.profile == 'wb':
            if k == 'bias':
                v = 5000
            elif k[:2] in ('tb', 'tc', 'tt'):
                v = _PRIMES[self.np % len(_PRIMES)] * (1 if self.np % 3 else -1); self.np += 1
            else:
                v = self.rnd.choice([1, -1, 2, -3])
        else:
            v = self.rnd.choice([0, 1, -1, 5, -7, 30, -30, 200, -150])
        self[k] = v
        return v


def build_predictors(e, prog, seed=0, profile='seeded'):
    out = {}
    specs = {}
    for name, (shape, tags, store) in PREDICTORS.items():
        key = id(shape)
        if key not in specs:
            ms = P.fill_model(e, shape, concrete=SeededWeights(seed + len(specs), profile))
            specs[key] = ms
        ms = specs[key]
        model = P.build_model(e, prog, ms)
        r = P.new_predictor(e, prog, model, tags)
        if r.var != 'Ok':
            raise Panic('Predictor::new rejected a well-formed model')
        pc = Cell(r.f[0].v)
        if store:
            S.call(e, prog, 'Predictor', 'store_tag_scores', [Ref(pc), True])
        out[name] = (pc, ms)
    return out


def snapshot(v, depth=0):
    """structural fingerprint of a value graph (z3 terms by id)"""
    if isinstance(v, Int):
        return ('i', v.bits, v.t if type(v.t) is int else v.t.get_id())
    if isinstance(v, bool) or v is None:
        return v
    if isinstance(v, Agg):
        return ('a', v.ty, tuple(snapshot(c.v, depth + 1) for c in v.f))
    if isinstance(v, Enum):
        return ('e', v.var, tuple(snapshot(c.v, depth + 1) for c in v.f))
    if isinstance(v, Seq):
        return ('s', tuple(snapshot(c.v, depth + 1) for c in v.e))
    if isinstance(v, Str):
        return ('S', tuple(b.t if type(b.t) is int else b.t.get_id() for b in v.b))
    if isinstance(v, StrRef):
        return ('sr', tuple(b.t if type(b.t) is int else b.t.get_id() for b in v.bytes()))
    if isinstance(v, Ref):
        return ('r', snapshot(v.c.v, depth + 1) if depth < 40 else None)
    if isinstance(v, SliceRef):
        return ('sl', tuple(snapshot(c.v, depth + 1) for c in v.cells()))
    if isinstance(v, Opaque):
        if hasattr(v, 'items'):
            return ('m', tuple((snapshot(k, depth + 1), snapshot(c.v, depth + 1)) for k, c in v.items))
        if v.kind == 'pma':
            return ('pma', id(v))
        return ('o', v.kind)
    if isinstance(v, z3.ExprRef):
        return ('z', v.get_id())
    return ('?', type(v).__name__)


def apply_op(e, prog, preds, cell, op, state):
    o = OPS[op]
    if o[0] == 'update':
        S.update_sentence(e, prog, cell, o[1], mk_str(o[2]))
        state['pred'] = None
    elif o[0] == 'predict':
        pc, ms = preds[o[1]]
        before = snapshot(pc.v)
        S.call(e, prog, 'Predictor', 'predict', [Ref(pc), Ref(cell)])
        e.check(snapshot(pc.v) == before, 'predict does not modify the predictor')
        state['pred'] = o[1]
        if o[1] == 'As':
            state['stored'] = True
    elif o[0] == 'fill_tags':
        S.call(e, prog, 'Sentence', 'fill_tags', [Ref(cell)])
        if state.get('pred') == 'As':
            e.cover('history-with-stored-scores')
    elif o[0] == 'reset_tags':
        S.call(e, prog, 'Sentence', 'reset_tags', [Ref(cell), usize(o[1])])
    elif o[0] == 'filter':
        if o[1] == 'wsconst':
            filt = P.wsconst_filter(e, prog, 'R'); fty = 'KyteaWsConstFilter'
        else:
            from models.m_map import new_map, map_insert
            m = new_map('HashMap')
            map_insert(e, m, mk_str('a'), Seq([some(mk_str('T1')), none(), some(mk_str('T3'))]))
            filt = P.pattern_tagger(e, prog, m); fty = 'PatternMatchTagger'
        e.run(hlib.fn(prog, fty, 'filter', 'SentenceFilter'), [Ref(Cell(filt)), Ref(cell)])


def final_steps(e, prog, preds, cell, fin):
    pc, ms = preds[fin]
    before = snapshot(pc.v)
    S.call(e, prog, 'Predictor', 'predict', [Ref(pc), Ref(cell)])
    S.call(e, prog, 'Sentence', 'fill_tags', [Ref(cell)])
    e.check(snapshot(pc.v) == before, 'predict does not modify the predictor')
    o = S.observe(e, prog, cell, writers=True, tokens=True)
    cands = None
    if fin == 'As':
        cands = []
        it = Cell(S.call(e, prog, 'Sentence', 'iter_tokens', [Ref(cell)]))
        while True:
            nx = S.call(e, prog, 'TokenIterator', 'next', [Ref(it)], 'Iterator')
            if nx.var == 'None':
                break
            cands.append(S.call(e, prog, 'Token', 'tag_candidates', [Ref(Cell(nx.f[0].v))]))
    return o, cands


def obs_equal(e, a, b, ca, cb):
    r = True
    for x, y in ((a.raw, b.raw), (a.tokenized, b.tokenized), (a.partial, b.partial)):
        r = b_and(r, bytes_eq(e, x, y))
    for xs, ys in ((a.char_types, b.char_types), (a.boundaries, b.boundaries), (a.scores, b.scores)):
        if len(xs) != len(ys):
            return False
        for x, y in zip(xs, ys):
            r = b_and(r, e.binop('Eq', x, y))
    r = b_and(r, e.binop('Eq', a.n_tags, b.n_tags))
    if len(a.tags) != len(b.tags) or len(a.tokens) != len(b.tokens):
        return False
    for x, y in zip(a.tags, b.tags):
        gx, gy = S.opt_tag_bytes(x), S.opt_tag_bytes(y)
        if (gx is None) != (gy is None):
            return False
        if gx is not None:
            r = b_and(r, bytes_eq(e, gx, gy))
    for x, y in zip(a.tokens, b.tokens):
        r = b_and(r, b_and(e.binop('Eq', x.start, y.start), e.binop('Eq', x.end, y.end)))
        r = b_and(r, bytes_eq(e, x.surface, y.surface))
    if ca is not None:
        r = b_and(r, values_eq(e, Seq(ca), Seq(cb)))
    return r


def make(e, progs, job):
    prog = progs['core']
    st = {}

    def harness_repredict(e):
        preds = e.memo(('preds', job.get('seed', 0), job.get('profile', 'seeded')), lambda: build_predictors(e, prog, job.get('seed', 0), job.get('profile', 'seeded')))
        st['preds'] = preds
        ss = S.sym_string(e, 'x', job['n'], 'ab', exclude='\0')
        st['s'] = ss
        sv = hlib.build_str(e, ss.chars)
        cell = Cell(S.new_sentence(e, prog, 'raw', sv).f[0].v)
        pc1, _ = preds[job['p1']]
        S.call(e, prog, 'Predictor', 'predict', [Ref(pc1), Ref(cell)])
        if job['fill1']:
            S.call(e, prog, 'Sentence', 'fill_tags', [Ref(cell)])
        o1, c1 = final_steps(e, prog, preds, cell, job['final'])
        fcell = Cell(S.new_sentence(e, prog, 'raw', Str(list(sv.b))).f[0].v)
        o2, c2 = final_steps(e, prog, preds, fcell, job['final'])
        e.check(obs_equal(e, o1, o2, c1, c2), 'reused sentence equals fresh sentence')

    def harness_stalefill(e):
        preds = e.memo(('preds', job.get('seed', 0), job.get('profile', 'seeded')), lambda: build_predictors(e, prog, job.get('seed', 0), job.get('profile', 'seeded')))
        st['preds'] = preds
        cell = Cell(S.new_sentence(e, prog, 'raw', mk_str('ab')).f[0].v)
        pc1, _ = preds[job['p1']]
        S.call(e, prog, 'Predictor', 'predict', [Ref(pc1), Ref(cell)])
        r = S.update_sentence(e, prog, cell, job['ukind'], mk_str(job['utext']))
        if r.var != 'Ok':
            raise Panic('update rejected a well-formed text')
        S.call(e, prog, 'Sentence', 'fill_tags', [Ref(cell)])
        o1 = S.observe(e, prog, cell, writers=True, tokens=True)
        fcell = Cell(S.new_sentence(e, prog, job['ukind'], mk_str(job['utext'])).f[0].v)
        S.call(e, prog, 'Sentence', 'fill_tags', [Ref(fcell)])
        o2 = S.observe(e, prog, fcell, writers=True, tokens=True)
        e.check(obs_equal(e, o1, o2, None, None), 'reused sentence equals fresh sentence')

    def describe_extra(m):
        ops = []
        for name, (shape, tags, store) in PREDICTORS.items():
            pc, ms = st['preds'][name]
            ops += [{'op': 'model', 'id': 'm' + name, 'data': P.model_json(ms, m)}, {'op': 'predictor', 'id': name, 'model': 'm' + name, 'tags': tags, 'store_scores': store}]
        cands = job['final'] == 'As'
        if job['kind'] == 'repredict':
            text = st['s'].py(m)
            ops += [{'op': 'sentence', 'id': 's', 'kind': 'raw', 'text': text}, {'op': 'predict', 's': 's', 'p': job['p1']}]
            if job['fill1']:
                ops.append({'op': 'fill_tags', 's': 's'})
            ops += [{'op': 'predict', 's': 's', 'p': job['final']}, {'op': 'fill_tags', 's': 's'}, {'op': 'observe', 's': 's', 'cands': cands},
                    {'op': 'sentence', 'id': 'f', 'kind': 'raw', 'text': text}, {'op': 'predict', 's': 'f', 'p': job['final']}, {'op': 'fill_tags', 's': 'f'},
                    {'op': 'observe', 's': 'f', 'cands': cands}]
        else:
            text = job['utext']
            ops += [{'op': 'sentence', 'id': 's', 'kind': 'raw', 'text': 'ab'}, {'op': 'predict', 's': 's', 'p': job['p1']},
                    {'op': 'update', 'id': 's', 'kind': job['ukind'], 'text': text}, {'op': 'fill_tags', 's': 's'}, {'op': 'observe', 's': 's'},
                    {'op': 'sentence', 'id': 'f', 'kind': job['ukind'], 'text': text}, {'op': 'fill_tags', 's': 'f'}, {'op': 'observe', 's': 'f'}]
        return {'property': ID, 'job': job, 'text': text, 'ops': ops}

    if job.get('kind') in ('repredict', 'stalefill'):
        def sample2():
            return {'job': job['name']}
        e.sample = sample2
        return (harness_repredict if job['kind'] == 'repredict' else harness_stalefill), describe_extra

    def harness(e):
        preds = e.memo(('preds', job.get('seed', 0), job.get('profile', 'seeded')), lambda: build_predictors(e, prog, job.get('seed', 0), job.get('profile', 'seeded')))
        st['preds'] = preds
        cell = Cell(S.new_sentence(e, prog, 'default', None).f[0].v)
        state = {}
        for op in job['hist']:
            apply_op(e, prog, preds, cell, op, state)
        alpha = 'ab'
        ss = S.sym_string(e, 'x', job['n'], alpha, exclude='\0')
        st['s'] = ss
        sv = hlib.build_str(e, ss.chars)
        r = S.update_sentence(e, prog, cell, 'raw', sv)
        if r.var != 'Ok':
            raise Panic('update_raw rejected a NUL-free non-empty text')
        o1, c1 = final_steps(e, prog, preds, cell, job['final'])
        fr = S.new_sentence(e, prog, 'raw', Str(list(sv.b)))
        fcell = Cell(fr.f[0].v)
        o2, c2 = final_steps(e, prog, preds, fcell, job['final'])
        e.check(obs_equal(e, o1, o2, c1, c2), 'reused sentence equals fresh sentence')

    def describe(m):
        text = st['s'].py(m)
        ops = []
        mids = {}
        for name, (shape, tags, store) in PREDICTORS.items():
            pc, ms = st['preds'][name]
            mj = P.model_json(ms, m)
            ops += [{'op': 'model', 'id': 'm' + name, 'data': mj}, {'op': 'predictor', 'id': name, 'model': 'm' + name, 'tags': tags, 'store_scores': store}]
        ops.append({'op': 'sentence', 'id': 's', 'kind': 'default', 'text': ''})
        for op in job['hist']:
            o = OPS[op]
            if o[0] == 'update':
                ops.append({'op': 'update', 'id': 's', 'kind': o[1], 'text': o[2]})
            elif o[0] == 'predict':
                ops.append({'op': 'predict', 's': 's', 'p': o[1]})
            elif o[0] == 'fill_tags':
                ops.append({'op': 'fill_tags', 's': 's'})
            elif o[0] == 'reset_tags':
                ops.append({'op': 'reset_tags', 's': 's', 'n': o[1]})
            elif o[1] == 'wsconst':
                ops.append({'op': 'filter', 's': 's', 'kind': 'wsconst', 'arg': 'R'})
            else:
                ops.append({'op': 'filter', 's': 's', 'kind': 'tagger', 'rules': {'a': ['T1', None, 'T3']}})
        cands = job['final'] == 'As'
        ops += [{'op': 'update', 'id': 's', 'kind': 'raw', 'text': text}, {'op': 'predict', 's': 's', 'p': job['final']}, {'op': 'fill_tags', 's': 's'},
                {'op': 'observe', 's': 's', 'cands': cands},
                {'op': 'sentence', 'id': 'f', 'kind': 'raw', 'text': text}, {'op': 'predict', 's': 'f', 'p': job['final']}, {'op': 'fill_tags', 's': 'f'},
                {'op': 'observe', 's': 'f', 'cands': cands}]
        return {'property': ID, 'job': job, 'text': text, 'ops': ops}

    def sample():
        if e.solver is None or 's' not in st or e._check() != z3.sat:
            return None
        return {'job': job['name'], 'history': job['hist'], 'final_text': st['s'].py(e.solver.model())}
    e.sample = sample
    return harness, describe


def role(v):
    d = v.get('data') or {}
    job = d.get('job', {})
    msg = v['msg']
    hist = '+'.join(job.get('hist', []))
    if v['kind'] != 'assert' or msg.startswith('MIR assert'):
        return 'panic:%s:%s:after[%s]:%s' % (hlib.panic_site(v), hlib.panic_kind(msg), hist, job.get('final'))
    return '%s:after[%s]:%s' % (msg, hist, job.get('final'))


def confirm(sc, replay):
    res = replay.run(sc['ops'])
    for op, r in zip(sc['ops'], res):
        if isinstance(r, dict) and ('panic' in r or 'crash' in r):
            return True, {'native_violations': ['panic in %s: %s' % (op['op'], r.get('panic'))]}
    obs = [r for op, r in zip(sc['ops'], res) if op['op'] == 'observe']
    a, b = obs[-2], obs[-1]
    diff = [k for k in a if a[k] != b.get(k)]
    return bool(diff), {'differing_observations': diff, 'reused': {k: a[k] for k in diff}, 'fresh': {k: b[k] for k in diff}}
