"""Shared pieces of the predictor-level harnesses (C01, C06, C08, C13, C14, C18, C19):
model shapes with symbolic weights, construction of `Model` values for the engine, the pointwise
linear-model oracle (symbolic and concrete), replay scenarios."""
import z3

from values import *
from engine import b_and, b_or, b_not, b_z
import hlib
import sentlib as S
from models.m_daac import elem_eq
from models.m_str import char_width

TYPE_CODE = {'D': 1, 'R': 2, 'H': 3, 'T': 4, 'K': 5, 'O': 6}


# ---------------------------------------------------------------------------------------------
# building crate structs by field name

def mk_struct(prog, name, **fields):
    names = prog.src.structs.get(name)
    if names is None:
        raise Unsupported('struct %s not found in the source tree' % name)
    missing = [n for n in names if n not in fields]
    if missing or len(fields) != len(names):
        raise Unsupported('struct %s has fields %s, harness provides %s (source changed?)' % (name, names, sorted(fields)))
    prog.struct_names.setdefault(name, list(names))
    return Agg([fields[n] for n in names], ty=name, names=prog.struct_names[name])


def mk_tuple_struct(name, *vals):
    return Agg(list(vals), ty=name)


def sym_i32(e, name, lo=-32768, hi=32767):
    t = z3.BitVec(name, 32)
    e.add(z3.And(t >= lo, t <= hi))
    return Int(t, 32, True, None, (lo, hi))


class ModelSpec:
    """a model shape + the symbolic (or concrete) weights filled in"""
    def __init__(self, shape):
        self.shape = shape
        self.char = []      # (ngram str, [weights Int])
        self.type = []      # (type code list, [weights])
        self.dict = []      # (word, [weights])
        self.bias = None
        self.tag_models = []    # dicts
        self.vars = {}      # name -> Int (for describing counterexamples)


def n_weights_ngram(W, m):
    return 2 * W - m + 1


def fill_model(e, shape, concrete=None):
    """shape: dict(cw, tw, char=[str], type=[str of type letters], dict=[str], tags=[...]) -> ModelSpec with symbolic weights.
    concrete: optional dict name -> int to use instead of symbolic values (engine validation / replay)"""
    ms = ModelSpec(shape)

    def w(name, lo=-32768, hi=32767):
        if concrete is not None:
            v = Int(concrete[name], 32, True)
        else:
            v = sym_i32(e, name, lo, hi)
        ms.vars[name] = v
        return v
    cw, tw = shape['cw'], shape['tw']
    for i, g in enumerate(shape.get('char', [])):
        nw = shape.get('char_nw', {}).get(g, n_weights_ngram(cw, len(g)))
        ms.char.append((g, [w('c%d_%d' % (i, k)) for k in range(nw)]))
    for i, g in enumerate(shape.get('type', [])):
        nw = shape.get('type_nw', {}).get(g, n_weights_ngram(tw, len(g)))
        ms.type.append(([TYPE_CODE[x] for x in g], [w('t%d_%d' % (i, k)) for k in range(nw)]))
    for i, g in enumerate(shape.get('dict', [])):
        ms.dict.append((g, [w('d%d_%d' % (i, k)) for k in range(len(g) + 1)]))
    ms.bias = w('bias', -(1 << 20), 1 << 20)
    for ti, tm in enumerate(shape.get('tags', [])):
        ncls = sum(len(c) for c in tm['cands'] if len(c) >= 2)
        d = {'token': tm['token'], 'cands': tm['cands'], 'bias': [w('tb%d_%d' % (ti, k)) for k in range(ncls)], 'char': [], 'type': []}
        for gi, (g, rels) in enumerate(tm.get('char', [])):
            d['char'].append((g, [(r, [w('tc%d_%d_%d_%d' % (ti, gi, r, k)) for k in range(ncls)]) for r in rels]))
        for gi, (g, rels) in enumerate(tm.get('type', [])):
            d['type'].append(([TYPE_CODE[x] for x in g], [(r, [w('tt%d_%d_%d_%d' % (ti, gi, r, k)) for k in range(ncls)]) for r in rels]))
        ms.tag_models.append(d)
    return ms


def wsconst_filter(e, prog, letter):
    """KyteaWsConstFilter::new(char type) — through the public constructor, so that the harnesses do not depend on the struct layout"""
    return e.run(hlib.fn(prog, 'KyteaWsConstFilter', 'new'), [Int(TYPE_CODE[letter], 8)])


def pattern_tagger(e, prog, rules_map):
    return e.run(hlib.fn(prog, 'PatternMatchTagger', 'new'), [rules_map])


def random_shape(rnd, tags=True, max_w=3):
    """a structurally valid random model shape (unique n-grams of length <= 2*window, tag n-gram positions within the window)"""
    cw = rnd.randint(1, max_w); tw = rnd.randint(1, min(max_w, 2))
    calpha = ['a', 'b', 'あ', 'é', '𠀋', '1']
    talpha = 'DRHTKO'
    sh = {'cw': cw, 'tw': tw}

    def ngrams(alpha, maxlen, k):
        out = []
        for _ in range(k):
            g = ''.join(rnd.choice(alpha) for _ in range(rnd.randint(1, maxlen)))
            if g not in out:
                out.append(g)
        return out
    sh['char'] = ngrams(calpha, min(2 * cw, 3), rnd.randint(0, 3))
    sh['type'] = ngrams(talpha, min(2 * tw, 2), rnd.randint(0, 2))
    sh['dict'] = ngrams(calpha, 3, rnd.randint(0, 2))
    if tags and rnd.random() < 0.7:
        tms = []
        toks = ngrams(calpha, 2, rnd.randint(1, 2))
        for tk in toks:
            cands = [[('T%d%d' % (ci, k)) for k in range(rnd.randint(0, 3))] for ci in range(rnd.randint(1, 2))]
            cn = [(g, sorted(rnd.sample(range(0, cw + 1), rnd.randint(1, min(2, cw + 1))))) for g in ngrams(calpha, 2, rnd.randint(0, 2))]
            tn = [(g, sorted(rnd.sample(range(0, tw + 1), rnd.randint(1, min(2, tw + 1))))) for g in ngrams(talpha, 2, rnd.randint(0, 1))]
            tms.append({'token': tk, 'cands': cands, 'char': cn, 'type': tn})
        sh['tags'] = tms
    for k in ('char', 'type', 'dict'):
        if not sh[k]:
            del sh[k]
    return sh


def vec_i32(ws):
    return Seq(list(ws), elt='i32')


def build_model(e, prog, ms):
    """Model value for the engine (via Model::new, the constructor the crate's own tests use)"""
    char_ngrams = Seq([mk_struct(prog, 'NgramData', ngram=mk_str(g), weights=vec_i32(ws)) for g, ws in ms.char])
    type_ngrams = Seq([mk_struct(prog, 'NgramData', ngram=mk_bytes_seq(g), weights=vec_i32(ws)) for g, ws in ms.type])
    recs = []
    for g, ws in ms.dict:
        r = e.run(hlib.fn(prog, 'WordWeightRecord', 'new'), [mk_str(g), vec_i32(ws), mk_str('')])
        if r.var != 'Ok':
            raise Panic('WordWeightRecord::new rejected a well-formed record')
        recs.append(r.f[0].v)
    tag_models = []
    for tm in ms.tag_models:
        cn = Seq([mk_struct(prog, 'TagNgramData', ngram=mk_str(g),
                            weights=Seq([mk_struct(prog, 'TagWeight', rel_position=u8(r), weights=vec_i32(ws)) for r, ws in rl])) for g, rl in tm['char']])
        tn = Seq([mk_struct(prog, 'TagNgramData', ngram=mk_bytes_seq(g),
                            weights=Seq([mk_struct(prog, 'TagWeight', rel_position=u8(r), weights=vec_i32(ws)) for r, ws in rl])) for g, rl in tm['type']])
        tag_models.append(mk_struct(prog, 'TagModel', token=mk_str(tm['token']),
                                    tags=Seq([Seq([mk_str(x) for x in cl]) for cl in tm['cands']]),
                                    char_ngram_model=mk_tuple_struct('TagNgramModel', cn),
                                    type_ngram_model=mk_tuple_struct('TagNgramModel', tn),
                                    bias=vec_i32(tm['bias'])))
    args = [mk_tuple_struct('NgramModel', char_ngrams), mk_tuple_struct('NgramModel', type_ngrams),
            mk_tuple_struct('DictModel', Seq(recs)), ms.bias, u8(ms.shape['cw']), u8(ms.shape['tw']), Seq(tag_models)]
    if prog.by_key.get(('Model', None, 'new')):
        return e.run(hlib.fn(prog, 'Model', 'new'), args)
    # Model::new only exists with the train/kytea features: build the value field by field (what Model::read produces)
    md = mk_struct(prog, 'ModelData', char_ngram_model=args[0], type_ngram_model=args[1], dict_model=args[2], bias=args[3],
                   char_window_size=args[4], type_window_size=args[5], tag_models=args[6])
    return mk_tuple_struct('Model', md)


def new_predictor(e, prog, model, predict_tags=False):
    r = e.run(hlib.fn(prog, 'Predictor', 'new'), [model, bool(predict_tags)])
    return r


def pattern_alphabet(shape):
    cs = []
    for g in list(shape.get('char', [])) + list(shape.get('dict', [])):
        for ch in g:
            if ch not in cs:
                cs.append(ch)
    for tm in shape.get('tags', []):
        for ch in tm['token']:
            if ch not in cs:
                cs.append(ch)
        for g, _ in tm.get('char', []):
            for ch in g:
                if ch not in cs:
                    cs.append(ch)
    return ''.join(cs)


def uses_types(shape):
    return bool(shape.get('type')) or any(tm.get('type') for tm in shape.get('tags', []))


def uses_type_cache(shape):
    """the cached type scorer (table lookup by a rolling sequence id) is used: types must be concrete to index the table"""
    return bool(shape.get('type')) and shape.get('tw', 0) <= 3 and not shape.get('tags')


def prepare_types(e, prog, cell, shape):
    """character types as the oracle sees them: concrete (forked) when the table-lookup scorer needs them, else the symbolic terms"""
    if uses_type_cache(shape):
        return concretize_types(e, prog, cell)
    return [cl.v for cl in hlib.fval(cell.v, 'char_types').e]


def concretize_types(e, prog, cell):
    """replace the (symbolic) character types of a sentence by their value on this path (forks over the feasible types)"""
    ct = hlib.fval(cell.v, 'char_types')
    for cl in ct.e:
        if type(cl.v.t) is not int:
            cl.v = Int(e.concretize(cl.v), 8)
    return [cl.v.t for cl in ct.e]


# ---------------------------------------------------------------------------------------------
# oracle: the pointwise linear model

def occurrences(e, pat_elems, text_elems):
    """end indices (exclusive, in elements) at which pat occurs in text; decided per path (may fork)"""
    m = len(pat_elems)
    out = []
    for end in range(m, len(text_elems) + 1):
        if all(elem_eq(e, text_elems[end - m + k], pat_elems[k]) for k in range(m)):
            out.append(end)
    return out


def add_terms(acc, b, term):
    acc.setdefault(b, []).append(term)


def oracle_scores(e, ms, chars, types):
    """-> list of z3/py i32 terms, one per boundary. chars: char Ints; types: list of type codes (py ints) or Ints"""
    n = len(chars)
    acc = {}
    cw, tw = ms.shape['cw'], ms.shape['tw']
    for g, ws in ms.char:
        pat = [Int(ord(ch), 32) for ch in g]
        for end in occurrences(e, pat, chars):
            for k, wv in enumerate(ws):
                b = end - 1 - cw + k
                if 0 <= b <= n - 2:
                    add_terms(acc, b, wv)
    tvals = [t if isinstance(t, Int) else Int(t, 8) for t in types]
    for g, ws in ms.type:
        pat = [Int(x, 8) for x in g]
        for end in occurrences(e, pat, tvals):
            for k, wv in enumerate(ws):
                b = end - 1 - tw + k
                if 0 <= b <= n - 2:
                    add_terms(acc, b, wv)
    for g, ws in ms.dict:
        pat = [Int(ord(ch), 32) for ch in g]
        m = len(g)
        for end in occurrences(e, pat, chars):
            for k, wv in enumerate(ws):
                b = end - 1 - m + k
                if 0 <= b <= n - 2:
                    add_terms(acc, b, wv)
    out = []
    for b in range(n - 1):
        s = ms.bias
        for t in acc.get(b, []):
            s = e.binop('Add', s, t)
        out.append(s)
    return out


# ---------------------------------------------------------------------------------------------
# concrete mirror (replay scenarios, native oracle)

def get_type_py(c):
    o = ord(c)
    if 0x30 <= o <= 0x39 or 0xFF10 <= o <= 0xFF19:
        return 1
    if 0x41 <= o <= 0x5A or 0x61 <= o <= 0x7A or 0xFF21 <= o <= 0xFF3A or 0xFF41 <= o <= 0xFF5A:
        return 2
    if 0x3040 <= o <= 0x3096:
        return 3
    if 0x30A0 <= o <= 0x30FA or 0x30FC <= o <= 0x30FF or 0xFF66 <= o <= 0xFF9F:
        return 4
    for lo, hi in ((0x3400, 0x4DBF), (0x4E00, 0x9FFF), (0xF900, 0xFAFF), (0x20000, 0x2A6DF), (0x2A700, 0x2B73F), (0x2B740, 0x2B81F), (0x2B820, 0x2CEAF), (0x2F800, 0x2FA1F)):
        if lo <= o <= hi:
            return 5
    return 6


def signed32(v):
    v &= 0xffffffff
    return v - (1 << 32) if v >= 1 << 31 else v


def model_json(ms, m=None):
    """JSON description of the model for the replay driver; m: z3 model for symbolic weights"""
    def val(x):
        if type(x.t) is int:
            return signed32(x.t)
        return signed32(m.eval(x.t, model_completion=True).as_long())
    d = {'char_ngrams': [{'ngram': g, 'weights': [val(x) for x in ws]} for g, ws in ms.char],
         'type_ngrams': [{'ngram': g, 'weights': [val(x) for x in ws]} for g, ws in ms.type],
         'dict': [{'word': g, 'weights': [val(x) for x in ws], 'comment': ''} for g, ws in ms.dict],
         'bias': val(ms.bias), 'char_window_size': ms.shape['cw'], 'type_window_size': ms.shape['tw'], 'tag_models': []}
    for tm in ms.tag_models:
        d['tag_models'].append({'token': tm['token'], 'tags': tm['cands'], 'bias': [val(x) for x in tm['bias']],
                                'char_ngrams': [{'ngram': g, 'weights': [{'rel_position': r, 'weights': [val(x) for x in ws]} for r, ws in rl]} for g, rl in tm['char']],
                                'type_ngrams': [{'ngram': g, 'weights': [{'rel_position': r, 'weights': [val(x) for x in ws]} for r, ws in rl]} for g, rl in tm['type']]})
    return d


def concrete_scores(mj, text):
    """pointwise linear model on concrete values (python ints)"""
    n = len(text)
    types = [get_type_py(c) for c in text]
    cw, tw = mj['char_window_size'], mj['type_window_size']
    sc = [mj['bias']] * (n - 1)

    def add(b, w):
        if 0 <= b <= n - 2:
            sc[b] += w
    for d in mj['char_ngrams']:
        g = d['ngram']; m_ = len(g)
        for end in range(m_, n + 1):
            if text[end - m_:end] == g:
                for k, w in enumerate(d['weights']):
                    add(end - 1 - cw + k, w)
    for d in mj['type_ngrams']:
        g = d['ngram']; m_ = len(g)
        for end in range(m_, n + 1):
            if types[end - m_:end] == g:
                for k, w in enumerate(d['weights']):
                    add(end - 1 - tw + k, w)
    for d in mj['dict']:
        g = d['word']; m_ = len(g)
        for end in range(m_, n + 1):
            if text[end - m_:end] == g:
                for k, w in enumerate(d['weights']):
                    add(end - 1 - m_ + k, w)
    return [signed32(x) for x in sc]
