"""C12 — tag models reflect exactly the tags seen in training."""
import z3

from values import *
from engine import b_and, b_or
import hlib
import sentlib as S
import predlib as P
import trainlib as T
from C02_harness import expected_tokens
from models.m_daac import elem_eq
from models.m_core import bytes_eq
from models.m_seq import seq_values
from models.m_str import str_bytes

ID = 'C12'
PROGRAMS = {'core': dict(crate='vaporetto', features=['train', 'kytea'])}
UNIT_CAP = 150
BUDGET_S = {'quick': 600, 'thorough': 1200}      # wall-clock safety caps (exceeding one is reported as inconclusive); typical quick runs take 1-200 s
CORPORA = {
    'tagged': [('tokenized', 'ab/N c/X ab/V'), ('tokenized', 'c/Y a b/P')],
    'two-cats': [('tokenized', 'a/N/x b/V a/N/y'), ('tokenized', 'b//z a')],
    'partial': [('partial', 'a/N-b|c/X c/Y|a'), ('tokenized', 'c//Z ab/N')],
    'absent': [('tokenized', 'a b/T a'), ('tokenized', 'b a/U')],
    # occurrences without any context feature: a token that is the whole sentence; a tag seen only there
    # ambiguous tokens whose tags are first seen in NON-lexicographic order (candidate order vs. classifier columns)
    'unsorted-tags': [('tokenized', 'ab/V c/Y ab/N'), ('tokenized', 'c/X a b/P')],
    'single-token': [('tokenized', 'a/S'), ('tokenized', 'b/N a/T c'), ('tokenized', 'c/K')],
}
# 'yy' is a dictionary-only token whose FIRST tag category is absent (only a later one is given)
TAGDICT = {'none': [], 'dict': [('tokenized', 'zz/D1/D2 ab/Q c yy//E2')]}
CFGS = [(1, 1, 1, 1), (2, 2, 2, 2), (2, 3, 1, 2), (1, 2, 2, 1)]
CFGS_EDGE = [(0, 1, 0, 1), (1, 0, 1, 0), (0, 0, 0, 0)]      # zero windows / zero n-gram sizes: (some) occurrences have no feature at all
BOUNDS = {
    'quick': {'corpora': sorted(CORPORA), 'tag dictionaries': sorted(TAGDICT), 'configurations': CFGS + CFGS_EDGE, 'learner': 'stub, coefficients from VERIF_SEED, every label order of the first two problems',
              'evaluation text': '1..2 symbolic characters over {corpus characters, any other value}, symbolic boundary label'},
    'thorough': {'corpora': sorted(CORPORA), 'tag dictionaries': sorted(TAGDICT), 'configurations': CFGS + [(3, 3, 2, 2), (2, 1, 3, 0)], 'evaluation text': '1..3 symbolic characters'},
}
OUTSIDE = 'corpora / tag sets outside the catalogue; the learner (stub with concrete representative coefficients); longer evaluation texts'
EXPLANATION = ('TagTrainer::{add_example, train, train_tag} (via Trainer) are executed (MIR) over the stub learner; the tag models of the returned model are compared with the '
               'tags observed per token in the corpus and the tag dictionary (the distinct tags per category, each once, in any order; bias and weight vectors sized to the trainable '
               'candidates); the model then tags a symbolic evaluation text through the real predictor: single-tag tokens always get their tag, ambiguous tokens one of '
               'theirs, unseen tokens none, and the stored tag scores equal quantised bias + quantised coefficients of the trainer\'s tag features.')
ASSUMPTIONS = ['liblinear stub (finite coefficients supplied by the harness)', 'daachorse contract model; hashbrown/BTreeMap models of mirsym']
MUST_REACH = ['tag models list exactly the observed tags', 'score vectors sized to the trainable candidates', 'tagging respects the observed candidates', 'stored tag scores equal the learned quantised classifier',
              'cover:ambiguous-token', 'cover:dictionary-only-token']
TECHNIQUE = 'bounded symbolic execution of rustc MIR (mirsym + z3): evaluation text and label symbolic; corpora/configurations/coefficients enumerated; learner stubbed'


def jobs(tier, seed):
    cfgs = CFGS if tier == 'quick' else CFGS + [(3, 3, 2, 2), (2, 1, 3, 0)]
    js = []
    for cn in sorted(CORPORA):
        for td in sorted(TAGDICT):
            for cfg in cfgs:
                if tier == 'quick' and td == 'dict' and cfg not in ((1, 1, 1, 1), (2, 3, 1, 2)):
                    continue
                for n in range(1, (2 if tier == 'quick' else 3) + 1):
                    js.append({'name': 'tags/%s/%s/%s/n%d' % (cn, td, '-'.join(map(str, cfg)), n), 'corpus': cn, 'tagdict': td, 'cfg': list(cfg), 'n': n, 'seed': seed})
        for cfg in CFGS_EDGE:
            if tier == 'quick' and cn not in ('single-token', 'tagged'):
                continue
            for n in (1, 2):
                js.append({'name': 'tags/%s/%s/%s/n%d' % (cn, 'none', '-'.join(map(str, cfg)), n), 'corpus': cn, 'tagdict': 'none', 'cfg': list(cfg), 'n': n, 'seed': seed})
    js.sort(key=lambda j: -j['n'])
    return js


def py_sentence(kind, text):
    """concrete reference parse -> (raw text, labels, per-char tag lists, n_tags)"""
    chars = [Int(ord(c), 32) for c in text]
    spec = S.spec_parse_tokenized(chars) if kind == 'tokenized' else S.spec_parse_partial(chars)
    raw, labels, tags = spec
    n_tags, flat = S.expected_tag_matrix(tags)
    flat = [None if t is None else ''.join(chr(c.t) for c in t) for t in flat]
    return ''.join(chr(c.t) for c in raw), labels, flat, n_tags


def observed(corpus, tagdict):
    """expected tag examples: token -> list of tag lists (in corpus order); plus dictionary-only tokens"""
    ex = {}
    for kind, text in corpus:
        raw, labels, flat, nt = py_sentence(kind, text)
        if nt == 0:
            continue
        for (s0, e0) in expected_tokens(labels):
            ex.setdefault(raw[s0:e0], []).append(flat[(e0 - 1) * nt:e0 * nt])
    defaults = {}
    for kind, text in tagdict:
        raw, labels, flat, nt = py_sentence(kind, text)
        for (s0, e0) in expected_tokens(labels):
            defaults.setdefault(raw[s0:e0], flat[(e0 - 1) * nt:e0 * nt] if nt else [])
    dict_only = []
    for tok, tags in defaults.items():
        if any(t is not None for t in tags) and tok not in ex:
            ex[tok] = [tags]; dict_only.append(tok)
    return ex, dict_only


def expected_tag_models(ex):
    out = {}
    for tok, lists in ex.items():
        n_tags = max(len(l) for l in lists)
        cands = [[] for _ in range(n_tags)]
        for l in lists:
            for j, t in enumerate(l):
                if t is not None and t not in cands[j]:
                    cands[j].append(t)
        out[tok] = cands
    return out


def tag_features(text, types, s0, e0, cfg):
    """the trainer's tag features of the token [s0, e0) (documented: n-grams that start at or before the token start and reach at least its end,
    identified by how far they extend beyond the token end, at most `window` characters)"""
    cw, cn, tw, tn = cfg
    n = len(text)
    tl = e0 - s0
    out = []
    for kind, N, W, seq in (('char', cn, cw, text), ('type', tn, tw, types)):
        for k in range(N):
            ln = tl + k + 1
            for i in range(max(0, e0 - ln), min(s0 + 1, max(0, n - (ln - 1)))):
                rel = i + ln - e0
                if rel > W and not __import__('os').environ.get('C12_SANITY'):
                    continue
                out.append((kind, seq[i:i + ln] if kind == 'char' else tuple(seq[i:i + ln]), rel))
    return out


def train_part(e, prog, job):
    cfg = tuple(job['cfg'])
    coef = T.CoefTable(job['seed'] + 3, binary_negation=True)
    e.ll = {'build': 'ok', 'coef': coef, 'log': [], 'label_order': 'choose', 'choose_limit': 2}
    cells = [T.make_sentence(e, prog, k, t) for k, t in CORPORA[job['corpus']]]
    tdc = [T.make_sentence(e, prog, k, t) for k, t in TAGDICT[job['tagdict']]]
    r = T.new_trainer(e, prog, cfg, [], 4, tdc)
    if r.var != 'Ok':
        raise Panic('Trainer::new failed')
    tcell = Cell(r.f[0].v)
    for c in cells:
        T.add_example(e, prog, tcell, c)
    rt = T.train(e, prog, tcell)
    if rt.var != 'Ok':
        return None
    model = rt.f[0].v
    rp = P.new_predictor(e, prog, deep_clone(model), True)
    if rp.var != 'Ok':
        raise Panic('Predictor::new rejected the trained model')
    pc = Cell(rp.f[0].v)
    S.call(e, prog, 'Predictor', 'store_tag_scores', [Ref(pc), True])
    return model, pc, list(e.ll['log'])


def decode_tag_models(model):
    out = {}
    order = []
    for tm in seq_values(hlib.fval(model.f[0].v, 'tag_models')):
        tok = bytes(b.conc() for b in str_bytes(hlib.fval(tm, 'token'))).decode('utf-8')
        tags = [[bytes(b.conc() for b in str_bytes(x)).decode('utf-8') for x in seq_values(cl)] for cl in seq_values(hlib.fval(tm, 'tags'))]
        bias = [P.signed32(x.conc()) for x in seq_values(hlib.fval(tm, 'bias'))]
        wl = []
        for nm in ('char_ngram_model', 'type_ngram_model'):
            for d in seq_values(hlib.fval(tm, nm).f[0].v):
                for w in seq_values(hlib.fval(d, 'weights')):
                    wl.append(len(seq_values(hlib.fval(w, 'weights'))))
        out[tok] = (tags, bias, wl); order.append(tok)
    return out, order


def make(e, progs, job):
    prog = progs['core']
    st = {}

    def harness(e):
        out = e.memo(('train', job['name'].rsplit('/', 1)[0]), lambda: train_part(e, prog, job))
        if out is None:
            return
        model, pc, log = out
        cfg = tuple(job['cfg'])
        ex, dict_only = observed(CORPORA[job['corpus']], TAGDICT[job['tagdict']])
        want = expected_tag_models(ex)
        got, order = decode_tag_models(model)
        if dict_only:
            e.cover('dictionary-only-token')
        # the property fixes, per token and category, the SET of tags (each once) — not their order, nor the order of the tag models
        def same(a, b):
            return len(a) == len(b) and all(sorted(x) == sorted(y) for x, y in zip(a, b))
        e.check(sorted(got) == sorted(want) and len(order) == len(set(order)) and all(same(got[t][0], want[t]) for t in want if t in got),
                'tag models list exactly the observed tags')
        oks = True
        for t, (tags, bias, wl) in got.items():
            ncls = sum(len(c) for c in tags if len(c) >= 2)
            if len(bias) != ncls or any(x != ncls for x in wl):
                oks = False
        e.check(oks, 'score vectors sized to the trainable candidates')
        # the learned quantised classifier, from the stub's coefficients (problem k>=1 belongs to the k-th trained (token, category) in model order)
        coef = e.ll['coef'] if getattr(e, 'll', None) and e.ll.get('coef') else T.CoefTable(job['seed'] + 3)
        probs = [l for l in log[1:]]
        pi = 0
        qtab = {}       # token -> list over classes of (qbias, {feature: q})
        corpus_py = [py_sentence(k, t) for k, t in CORPORA[job['corpus']]]
        for tok in order:
            tags = got[tok][0]
            exs = []    # (tag list, features) per example of this token, corpus order
            for raw, labels, flat, nt in corpus_py:
                if nt == 0:
                    continue
                types = [P.get_type_py(c) for c in raw]
                for (s0, e0) in expected_tokens(labels):
                    if raw[s0:e0] == tok:
                        exs.append((flat[(e0 - 1) * nt:e0 * nt], tag_features(raw, types, s0, e0, cfg)))
            if not exs:
                exs = [(ex[tok][0], [])]
            classes = []
            for j, cl in enumerate(tags):
                if len(cl) < 2:
                    continue
                if pi >= len(probs) or probs[pi]['result'] != 'ok':
                    return
                m = probs[pi]['model']
                # which learner label stands for which TAG: read off the captured training problem (the i-th example of this problem is the i-th
                # occurrence, in corpus order, that carries a tag in category j) — independent of the order in which the model lists the candidates
                prob = probs[pi].get('problem')
                pi += 1
                exs_j = [tl[j] for tl, _ in exs if j < len(tl) and tl[j] is not None]
                name_of = {}
                if prob is not None and len(getattr(prob, 'ys', [])) == len(exs_j):
                    for y, t in zip(prob.ys, exs_j):
                        name_of[int(y)] = t
                # feature ids of this problem: first-seen order over the examples that carry a tag in category j
                fid = {}
                for tl, feats in exs:
                    if j < len(tl) and tl[j] is not None:
                        for f in feats:
                            if f not in fid:
                                fid[f] = len(fid) + 1
                wmax = 1e-6
                for li in range(len(cl)):
                    wmax = max(wmax, abs(coef(m.no, 0, li, m)))
                    for k in range(1, m.nfeat + 1):
                        wmax = max(wmax, abs(coef(m.no, k, li, m)))
                mult = wmax / float(T.QMAX)
                per = [None] * len(cl)
                for li, lab in enumerate(m.labels):
                    pos = cl.index(name_of[lab]) if lab in name_of and name_of[lab] in cl else lab
                    per[pos] = (T.quantize(coef(m.no, 0, li, m), mult), {f: T.quantize(coef(m.no, k, li, m), mult) for f, k in fid.items()})
                classes.extend(per)
            qtab[tok] = classes
        # evaluation
        alpha = ''
        for raw, _, _, _ in corpus_py:
            for ch in raw:
                if ch not in alpha:
                    alpha += ch
        n = job['n']
        ss = S.sym_string(e, 'x', n, alpha[:3], exclude='\0')
        st['s'] = ss
        r = S.new_sentence(e, prog, 'raw', hlib.build_str(e, ss.chars))
        cell = Cell(r.f[0].v)
        S.call(e, prog, 'Predictor', 'predict', [Ref(pc), Ref(cell)])
        labels = []
        for i, cl in enumerate(S.call(e, prog, 'Sentence', 'boundaries_mut', [Ref(cell)]).cells()):
            t = z3.BitVec('l%d' % i, 8)
            e.add(z3.ULE(t, 1)); cl.v = Int(t, 8); labels.append(cl.v)
        st['labels'] = labels
        S.call(e, prog, 'Sentence', 'fill_tags', [Ref(cell)])
        o = S.observe(e, prog, cell, writers=False, tokens=True)
        L = [e.concretize(l) for l in labels]
        nt = o.n_tags.conc()
        types = [cl.v for cl in hlib.fval(cell.v, 'char_types').e]
        okm = True; okq = True
        it = Cell(S.call(e, prog, 'Sentence', 'iter_tokens', [Ref(cell)]))
        toks = []
        while True:
            nx = S.call(e, prog, 'TokenIterator', 'next', [Ref(it)], 'Iterator')
            if nx.var == 'None':
                break
            toks.append(Cell(nx.f[0].v))
        for tk, (s0, e0) in zip(toks, expected_tokens(L)):
            which = None
            for tok in order:
                pat = [Int(ord(c), 32) for c in tok]
                if len(pat) == e0 - s0 and all(elem_eq(e, ss.chars[s0 + k], pat[k]) for k in range(len(pat))):
                    which = tok
            slots = o.tags[(e0 - 1) * nt:e0 * nt] if nt else []
            if which is None:
                if any(S.opt_tag_bytes(x) is not None for x in slots):
                    okm = False
                continue
            tags = got[which][0]
            if any(len(c) >= 2 for c in tags):
                e.cover('ambiguous-token')
            for j, cl in enumerate(tags):
                g = S.opt_tag_bytes(slots[j]) if j < len(slots) else None
                if len(cl) == 0:
                    okm = okm and g is None
                elif g is None:
                    okm = False
                else:
                    member = False
                    for name in cl:
                        if bytes_eq(e, g, mk_str(name).b) is True:
                            member = True
                    if len(cl) == 1 and not member:
                        okm = False
                    okm = okm and member
            # stored scores
            res = S.call(e, prog, 'Token', 'tag_candidates', [Ref(tk)])
            cats = seq_values(res)
            feats_sym = qtab.get(which)
            if feats_sym is None:
                continue
            ci = 0
            for catv, cl in zip(cats, tags):
                items = seq_values(catv)
                if len(cl) < 2:
                    continue
                for q, itv in enumerate(items):
                    qb, fq = feats_sym[ci + q]
                    want_s = qb
                    for f, qv in fq.items():
                        if qv == 0:
                            continue
                        kind, seq, rel = f
                        ln = len(seq)
                        end = e0 + rel
                        i0 = end - ln
                        if i0 < 0 or end > n:
                            continue
                        elems = ss.chars if kind == 'char' else types
                        pat = [Int(ord(c), 32) for c in seq] if kind == 'char' else [Int(x, 8) for x in seq]
                        if all(elem_eq(e, elems[i0 + k] if isinstance(elems[i0 + k], Int) else Int(elems[i0 + k], 8), pat[k]) for k in range(ln)):
                            want_s += qv
                    okq = b_and(okq, e.binop('Eq', itv.f[1].v, Int(want_s, 32, True)))
                ci += len(cl)
        e.check(okm, 'tagging respects the observed candidates')
        e.check(okq, 'stored tag scores equal the learned quantised classifier')

    def describe(m):
        text = st['s'].py(m) if 's' in st else 'ab'
        corpus = [{'kind': k, 'text': t} for k, t in CORPORA[job['corpus']]]
        td = [{'kind': k, 'text': t} for k, t in TAGDICT[job['tagdict']]]
        labels = [l.t if type(l.t) is int else m.eval(l.t, model_completion=True).as_long() for l in st.get('labels', [])]
        return {'property': ID, 'job': job, 'text': text, 'labels': labels, 'cfg': job['cfg'],
                'ops': [{'op': 'train', 'id': 'm', 'cfg': job['cfg'], 'dict': [], 'max_len': 4, 'corpus': corpus, 'tag_dict': td, 'solver': '1'},
                        {'op': 'predictor', 'id': 'p', 'model': 'm', 'tags': True}, {'op': 'sentence', 'id': 's', 'kind': 'raw', 'text': text},
                        {'op': 'predict', 's': 's', 'p': 'p'}, {'op': 'set_boundaries', 's': 's', 'b': labels}, {'op': 'fill_tags', 's': 's'}, {'op': 'observe', 's': 's'}]}

    def sample():
        if 's' not in st or e.solver is None or e._check() != z3.sat:
            return {'job': job['name']}
        return {'job': job['name'], 'evaluation_text': st['s'].py(e.solver.model())}
    e.sample = sample
    return harness, describe


def role(v):
    d = v.get('data') or {}
    msg = v['msg']
    job = d.get('job', {})
    if v['kind'] != 'assert' or msg.startswith('MIR assert'):
        return 'panic:%s:%s:%s' % (hlib.panic_site(v), hlib.panic_kind(msg), job.get('corpus'))
    return '%s:%s' % (msg, job.get('corpus'))


def confirm(sc, replay):
    """native (real liblinear): the structural clauses and the membership clause are checked on the natively trained model"""
    res = replay.run(sc['ops'])
    r = res[0]
    if 'panic' in r:
        return True, {'native_violations': ['train panicked: ' + str(r['panic'])]}
    if 'model' not in r:
        return False, {'native': r}
    job = sc['job']
    ex, _ = observed(CORPORA[job['corpus']], TAGDICT[job['tagdict']])
    want = expected_tag_models(ex)
    got = {t['token']: t for t in r['model']['tag_models']}
    bad = []
    def same(a, b):
        return len(a) == len(b) and all(sorted(x) == sorted(y) for x, y in zip(a, b))
    if sorted(got) != sorted(want) or len(got) != len(r['model']['tag_models']) or any(not same(got[t]['tags'], want[t]) for t in want if t in got):
        bad.append('tag models list exactly the observed tags')
    for t, tm in got.items():
        ncls = sum(len(c) for c in tm['tags'] if len(c) >= 2)
        lens = [len(w['weights']) for tab in (tm['char_ngrams'], tm['type_ngrams']) for d in tab for w in d['weights']]
        if len(tm['bias']) != ncls or any(x != ncls for x in lens):
            bad.append('score vectors sized to the trainable candidates')
    if any(isinstance(x, dict) and 'panic' in x for x in res[1:]):
        bad.append('tagging with the natively trained model panicked')
    else:
        ob = res[-1]
        text = sc['text']; L = sc['labels']
        nt = ob['n_tags']
        for (s0, e0) in expected_tokens(L):
            slots = ob['tags'][(e0 - 1) * nt:e0 * nt] if nt else []
            tm = got.get(text[s0:e0])
            if tm is None:
                if any(x is not None for x in slots):
                    bad.append('unseen token got a tag')
                continue
            for j, cl in enumerate(tm['tags']):
                g = slots[j] if j < len(slots) else None
                if (len(cl) == 0 and g is not None) or (len(cl) >= 1 and g not in cl):
                    bad.append('tagging respects the observed candidates')
    if not bad:
        # the classifier clause, natively: the real learner separates the training occurrences of these tiny corpora, so re-tagging the training sentences
        # with their gold boundaries must give every ambiguous token occurrence its gold tag (confirmation heuristic, run only after the engine found the
        # stored scores attached to other candidates than the learned ones)
        wrong = []
        for kind, ctext in CORPORA[job['corpus']]:
            if kind != 'tokenized':
                continue
            raw, labels, flat, nt0 = py_sentence(kind, ctext)
            if nt0 == 0:
                continue
            ops = [{'op': 'model', 'id': 'dummy', 'data': None}] if False else []
            ops = list(sc['ops'][:1]) + [{'op': 'predictor', 'id': 'p', 'model': 'm', 'tags': True}, {'op': 'sentence', 'id': 's', 'kind': 'raw', 'text': raw},
                                         {'op': 'predict', 's': 's', 'p': 'p'}, {'op': 'set_boundaries', 's': 's', 'b': labels}, {'op': 'fill_tags', 's': 's'}, {'op': 'observe', 's': 's'}]
            rr = replay.run(ops)
            ob2 = rr[-1]
            if not isinstance(ob2, dict) or 'tags' not in ob2 or not isinstance(ob2['tags'], list):
                continue
            nt2 = ob2['n_tags']
            for (s0, e0) in expected_tokens(labels):
                tm = got.get(raw[s0:e0])
                if tm is None:
                    continue
                gold = flat[(e0 - 1) * nt0:e0 * nt0]
                pred = ob2['tags'][(e0 - 1) * nt2:e0 * nt2] if nt2 else []
                for j, cl in enumerate(tm['tags']):
                    if len(cl) >= 2 and j < len(gold) and gold[j] is not None and (j >= len(pred) or pred[j] != gold[j]):
                        wrong.append('%s: gold %r, natively trained model gives %r' % (raw[s0:e0], gold[j], pred[j] if j < len(pred) else None))
        if wrong:
            bad.append('stored tag scores equal the learned quantised classifier (native: training occurrences are not reproduced: %s)' % '; '.join(wrong[:3]))
    return bool(bad), {'native_violations': sorted(set(bad))[:5]}
