"""Round-trip harness shared by C03 (tokenized format) and C04 (partial-annotation format)."""
import z3

from values import *
from engine import b_and, b_not
import hlib
import sentlib as S
from sentlib import NWB, WB, UNK
from models.m_core import bytes_eq
from models.m_str import utf8_valid, char_width

PROGRAMS = {'core': dict(crate='vaporetto', features=['train', 'kytea'])}


DIRTY = {'tokenized': 'p/A/B q/C/D r', 'partial': 'p/A/B|q/C/D-r'}


def build_sentence(e, prog, job, fmt, st):
    """sentence from job parameters: text classes, symbolic labels, tag presence pattern, symbolic tags"""
    n = job['n']
    specials = job['text_specials']
    ss = S.sym_string(e, 'c', n, specials, exclude='\0')
    st['s'] = ss
    sv = hlib.build_str(e, ss.chars)
    r = S.new_sentence(e, prog, 'raw', sv)
    if r.var != 'Ok':
        raise Panic('from_raw rejected a NUL-free non-empty text')
    cell = Cell(r.f[0].v)
    labels = []
    maxl = 1 if fmt == 'tokenized' else 2
    for i, cl in enumerate(S.call(e, prog, 'Sentence', 'boundaries_mut', [Ref(cell)]).cells()):
        t = z3.BitVec('l%d' % i, 8)
        e.add(z3.ULE(t, maxl))
        cl.v = Int(t, 8); labels.append(cl.v)
    st['labels'] = labels
    nt = job['n_tags']
    tags = []       # per slot: None | list of char Ints
    st['tagchars'] = tags
    if nt:
        S.call(e, prog, 'Sentence', 'reset_tags', [Ref(cell), usize(nt)])
        pat = job['pattern']
        for k, cl in enumerate(S.call(e, prog, 'Sentence', 'tags_mut', [Ref(cell)]).cells()):
            ln = int(pat[k])
            if ln == 0:
                cl.v = none(); tags.append(None); continue
            tcs = []
            for q in range(ln):
                c, v = hlib.sym_char_classes(e, 't%d_%d' % (k, q), job['tag_specials'], exclude='\0')
                tcs.append(c)
            cl.v = some(Enum('Owned', [hlib.build_str(e, tcs)], 'Cow')); tags.append(tcs)
    return cell, sv


def trim(ts):
    ts = list(ts)
    while ts and ts[-1] is None:
        ts.pop()
    return ts


def tag_lists_equal(e, got_opts, want_charlists):
    """got: list of Option<Cow<str>> values; want: list of None|char list; equal up to trailing None"""
    g = [S.opt_tag_bytes(x) for x in got_opts]
    g = trim(g); w = trim(want_charlists)
    if len(g) != len(w):
        return False
    r = True
    for a, b in zip(g, w):
        if (a is None) != (b is None):
            return False
        if a is not None:
            r = b_and(r, S.same_chars(e, S.chars_of_bytes(e, a), b))
    return r


def harness_write_parse(e, prog, job, fmt, st):
    cell, sv = build_sentence(e, prog, job, fmt, st)
    n = job['n']; nt = job['n_tags']
    writer = 'write_tokenized_text' if fmt == 'tokenized' else 'write_partial_annotation_text'
    buf = Cell(mk_str('stale'))
    S.call(e, prog, 'Sentence', writer, [Ref(cell), Ref(buf)])
    e.check(utf8_valid(e, buf.v.b), 'written text is valid UTF-8')
    if job.get('reuse'):
        # the written text is parsed by update_* into a sentence object that held other (tagged) content before
        rd = S.new_sentence(e, prog, fmt, mk_str(DIRTY[fmt]))
        if rd.var != 'Ok':
            raise Panic('parser rejected the fixed warm-up text')
        c2 = Cell(rd.f[0].v)
        r2 = S.update_sentence(e, prog, c2, fmt, buf.v)
    else:
        r2 = S.new_sentence(e, prog, fmt, buf.v)
        c2 = Cell(r2.f[0].v) if r2.var == 'Ok' else None
    if r2.var != 'Ok':
        e.fail('parser accepts the written text')
        return
    e.check(True, 'parser accepts the written text')
    o2 = S.observe(e, prog, c2, writers=False, tokens=(fmt == 'tokenized'))
    e.check(bytes_eq(e, o2.raw, sv.b), 'raw text survives the round trip')
    okb = len(o2.boundaries) == n - 1
    if okb:
        for b, l in zip(o2.boundaries, st['labels']):
            okb = b_and(okb, e.binop('Eq', Int(b.t, 8), l))
    e.check(okb, 'boundaries survive the round trip')
    tags = st['tagchars']
    nt2 = o2.n_tags.conc()
    if fmt == 'tokenized':
        # per token: tags of the token's last character, up to trailing absent tags
        L = [e.concretize(l) for l in st['labels']]
        ends = [i + 1 for i in range(n - 1) if L[i] == WB] + [n]
        okt = len(o2.tokens) == len(ends)
        if okt:
            for t, en in zip(o2.tokens, ends):
                want = tags[(en - 1) * nt:en * nt] if nt else []
                okt = b_and(okt, tag_lists_equal(e, t.tags, want))
        e.check(okt, 'per-token tags survive the round trip (up to trailing absent tags)')
    else:
        okt = len(o2.tags) == n * nt2
        if okt:
            for i in range(n):
                want = tags[i * nt:(i + 1) * nt] if nt else []
                okt = b_and(okt, tag_lists_equal(e, o2.tags[i * nt2:(i + 1) * nt2], want))
        e.check(okt, 'per-character tags survive the round trip (up to trailing absent tags)')


def harness_idempotent(e, prog, job, fmt, st):
    ss = S.sym_string(e, 'c', job['n'], job['text_specials'])
    st['s'] = ss; st['labels'] = []; st['tagchars'] = []
    sv = hlib.build_str(e, ss.chars)
    r = S.new_sentence(e, prog, fmt, sv)
    if r.var != 'Ok':
        e.cover('rejected')
        return
    writer = 'write_tokenized_text' if fmt == 'tokenized' else 'write_partial_annotation_text'
    b1 = Cell(mk_str('stale'))
    S.call(e, prog, 'Sentence', writer, [Ref(Cell(r.f[0].v)), Ref(b1)])
    e.check(utf8_valid(e, b1.v.b), 'written text is valid UTF-8')
    r2 = S.new_sentence(e, prog, fmt, b1.v)
    if r2.var != 'Ok':
        e.fail('parser accepts the text written after parsing')
        return
    e.check(True, 'parser accepts the text written after parsing')
    b2 = Cell(mk_str('stale'))
    S.call(e, prog, 'Sentence', writer, [Ref(Cell(r2.f[0].v)), Ref(b2)])
    e.check(bytes_eq(e, b1.v.b, b2.v.b), 'write-after-parse is idempotent')


def describe(job, fmt, st, m):
    ss = st['s']
    text = ss.py(m)
    if job['kind'] == 'idem':
        return {'job': job, 'fmt': fmt, 'text': text,
                'ops': [{'op': 'sentence', 'id': 'a', 'kind': fmt, 'text': text}, {'op': 'reparse', 'from': 'a', 'to': 'b', 'fmt': fmt},
                        {'op': 'reparse', 'from': 'b', 'to': 'c', 'fmt': fmt}]}
    labels = [l.t if type(l.t) is int else m.eval(l.t, model_completion=True).as_long() for l in st['labels']]
    tags = []
    for tc in st['tagchars']:
        tags.append(None if tc is None else hlib.model_str(m, tc))
    ops = [{'op': 'sentence', 'id': 'a', 'kind': 'raw', 'text': text}, {'op': 'set_boundaries', 's': 'a', 'b': labels}]
    if job['n_tags']:
        ops += [{'op': 'reset_tags', 's': 'a', 'n': job['n_tags']}, {'op': 'set_tags', 's': 'a', 'tags': tags}]
    if job.get('reuse'):
        ops += [{'op': 'sentence', 'id': 'b', 'kind': fmt, 'text': DIRTY[fmt]}, {'op': 'reparse', 'from': 'a', 'to': 'b', 'fmt': fmt, 'update': True}, {'op': 'observe', 's': 'b'}]
    else:
        ops += [{'op': 'reparse', 'from': 'a', 'to': 'b', 'fmt': fmt}, {'op': 'observe', 's': 'b'}]
    return {'job': job, 'fmt': fmt, 'text': text, 'labels': labels, 'tags': tags, 'ops': ops}


def native_violations(sc, res):
    for op, r in zip(sc['ops'], res):
        if isinstance(r, dict) and ('panic' in r or 'crash' in r):
            return ['panic in %s: %s' % (op['op'], r.get('panic'))]
    fmt = sc['fmt']; job = sc['job']
    out = []
    if job['kind'] == 'idem':
        if 'err' in res[0]:
            return []
        if 'err' in res[1]:
            return ['parser accepts the text written after parsing']
        if 'err' in res[2] or res[1]['text'] != res[2]['text']:
            out.append('write-after-parse is idempotent')
        return out
    rp = [r for op, r in zip(sc['ops'], res) if op['op'] == 'reparse'][0]
    if 'err' in rp:
        return ['parser accepts the written text']
    ob = res[-1]
    okf, bad = S.native_obs_ok(ob)
    if not okf:
        return ['panic in accessors: %s' % bad]
    n = len(sc['text']); nt = job['n_tags']
    if ob['raw'] != sc['text']:
        out.append('raw text survives the round trip')
    if ob['boundaries'] != sc['labels']:
        out.append('boundaries survive the round trip')
    tags = sc['tags']
    if fmt == 'tokenized':
        L = sc['labels']
        ends = [i + 1 for i in range(n - 1) if L[i] == WB] + [n]
        got = [trim(t['tags']) for t in ob['tokens']]
        want = [trim(tags[(en - 1) * nt:en * nt] if nt else []) for en in ends]
        if got != want:
            out.append('per-token tags survive the round trip (up to trailing absent tags)')
    else:
        nt2 = ob['n_tags']
        got = [trim(ob['tags'][i * nt2:(i + 1) * nt2]) for i in range(n)]
        want = [trim(tags[i * nt:(i + 1) * nt] if nt else []) for i in range(n)]
        if got != want:
            out.append('per-character tags survive the round trip (up to trailing absent tags)')
    return out


def confirm(sc, replay):
    res = replay.run(sc['ops'])
    v = native_violations(sc, res)
    return bool(v), {'native_violations': v, 'native': res[-2:] if res else None}


def role(v, fmt):
    d = v.get('data') or {}
    msg = v['msg']
    job = d.get('job', {})
    special = ''
    if d.get('tags'):
        delim = set(' /\\' if fmt == 'tokenized' else ' /\\-|')
        if any(t and (set(t) & delim) for t in d['tags']):
            special = ':tag-contains-delimiter'
    if v['kind'] != 'assert' or msg.startswith('MIR assert'):
        return 'panic:%s:%s%s' % (hlib.panic_site(v), hlib.panic_kind(msg), special)
    return '%s:%s%s' % (job.get('kind', '?'), msg, special)


def make(e, progs, job, fmt):
    prog = progs['core']
    st = {}

    def harness(e):
        if job['kind'] == 'idem':
            harness_idempotent(e, prog, job, fmt, st)
        else:
            harness_write_parse(e, prog, job, fmt, st)

    def desc(m):
        return describe(job, fmt, st, m)

    def sample():
        if e.solver is None or 's' not in st or e._check() != z3.sat:
            return None
        d = desc(e.solver.model())
        return {k: d[k] for k in ('text', 'labels', 'tags') if k in d} | {'job': job['name']}
    e.sample = sample
    return harness, desc


def validate(progs, replay, seed, tier, fmt):
    """engine validation: concrete sentences written by the engine and by the native library"""
    import random
    from engine import Engine
    prog = progs['core']
    rnd = random.Random(seed * 131 + (7 if fmt == 'tokenized' else 9))
    runs = 0; mism = []
    e = Engine(prog)
    alphabet = ['a', 'b', 'é', 'あ', '𠀋', ' ', '/', '\\', '-', '|']
    writer = 'write_tokenized_text' if fmt == 'tokenized' else 'write_partial_annotation_text'
    for _ in range(40 if tier == 'quick' else 200):
        n = rnd.randint(1, 5)
        text = ''.join(rnd.choice(alphabet) for _ in range(n))
        labels = [rnd.choice([0, 1] if fmt == 'tokenized' else [0, 1, 2]) for _ in range(n - 1)]
        nt = rnd.choice([0, 1, 2])
        tags = [(''.join(rnd.choice(alphabet) for _ in range(rnd.randint(1, 2))) if rnd.random() < 0.6 else None) for _ in range(n * nt)]
        ops = [{'op': 'sentence', 'id': 'a', 'kind': 'raw', 'text': text}, {'op': 'set_boundaries', 's': 'a', 'b': labels}]
        if nt:
            ops += [{'op': 'reset_tags', 's': 'a', 'n': nt}, {'op': 'set_tags', 's': 'a', 'tags': tags}]
        ops += [{'op': 'observe', 's': 'a'}]
        native = replay.run(ops)
        got = {}

        def h(e):
            r = S.new_sentence(e, prog, 'raw', mk_str(text))
            cell = Cell(r.f[0].v)
            for cl, l in zip(S.call(e, prog, 'Sentence', 'boundaries_mut', [Ref(cell)]).cells(), labels):
                cl.v = Int(l, 8)
            if nt:
                S.call(e, prog, 'Sentence', 'reset_tags', [Ref(cell), usize(nt)])
                for cl, t in zip(S.call(e, prog, 'Sentence', 'tags_mut', [Ref(cell)]).cells(), tags):
                    cl.v = none() if t is None else some(Enum('Owned', [mk_str(t)], 'Cow'))
            buf = Cell(Str())
            S.call(e, prog, 'Sentence', writer, [Ref(cell), Ref(buf)])
            got['w'] = bytes(b.conc() for b in buf.v.b).decode('utf-8')
            r2 = S.new_sentence(e, prog, fmt, buf.v)
            got['ok'] = r2.var == 'Ok'
        e.violations = []
        e.explore(h)
        runs += 1
        ob = native[-1]
        key = 'tokenized' if fmt == 'tokenized' else 'partial'
        if e.violations:
            if not (isinstance(ob.get(key), dict) and 'panic' in ob[key]):
                mism.append({'case': [text, labels, tags], 'engine': e.violations[0].msg, 'native': ob.get(key)})
            continue
        if got.get('w') != ob.get(key):
            mism.append({'case': [text, labels, tags], 'engine': got.get('w'), 'native': ob.get(key)})
    return {'runs': runs, 'mismatches': mism}
