"""C09 — a trained model computes exactly the function the learner produced."""
import z3

from values import *
from engine import b_and
import hlib
import sentlib as S
import predlib as P
import trainlib as T
from models.m_daac import elem_eq
from models.m_seq import seq_values
from models.m_str import str_bytes

ID = 'C09'
PROGRAMS = {'core': dict(crate='vaporetto', features=['train', 'kytea'])}
UNIT_CAP = 150
BUDGET_S = {'quick': 600, 'thorough': 1200}      # wall-clock safety caps (exceeding one is reported as inconclusive); typical quick runs take 1-200 s
# type windows of 3 build the 8^6 type-score table in Predictor::new (262 144 iterations per construction): thorough tier only
CFGS_QUICK = [(1, 1, 1, 1), (2, 2, 2, 2), (2, 2, 1, 1), (1, 1, 2, 2), (3, 2, 2, 3), (2, 3, 1, 1), (3, 3, 2, 2), (1, 2, 2, 2), (2, 1, 0, 0), (0, 0, 2, 2), (3, 1, 3, 0)]
DICTS = {'none': ([], 4), 'a-ab': (['a', 'ab'], 1), 'words': (['b', 'ab', 'abc'], 2)}
BOUNDS = {
    'quick': {'configurations (char window, char n, type window, type n)': CFGS_QUICK, 'corpora': ['abc-ba', 'mixed'], 'dictionaries': sorted(DICTS),
              'learner coefficients': 'concrete values drawn from VERIF_SEED (incl. exact zeros, tiny and large magnitudes); every order of the learner\'s label list',
              'evaluation text': '1..3 symbolic characters over {corpus characters, any other scalar value}'},
    'thorough': {'configurations': 'all (cw, cn, tw, tn) in {0..3}^4 (type window 3 with type n-grams only for three char sides) on corpus abc-ba with dictionary a-ab and texts of 1..2 characters; the quick configuration list on', 'corpora': ['abc-ba', 'mixed', 'ab-c'], 'dictionaries': sorted(DICTS), 'evaluation text': '1..4 symbolic characters',
                 'learner coefficients': 'three seeds'},
}
OUTSIDE = ('the learner (liblinear) is a stub returning harness-chosen coefficients: coefficients are concrete representatives, not symbolic (floating-point solving of the '
           'quantisation is attempted separately by C11\'s range query); corpora/dictionaries outside the catalogue; longer evaluation texts')
EXPLANATION = ('Trainer::{new, add_example, train} are executed (MIR) over the stub learner; the returned model goes through the real Predictor::new/predict on a symbolic '
               'evaluation text and z3 decides on every path that each score equals quantised bias + sum of the quantised coefficients of exactly the documented features '
               'of that boundary; structurally, every stored n-gram weight vector has length 2*W_own - len + 1 and the weight of (n-gram, rel) sits at index W_own - len - rel.')
ASSUMPTIONS = ['liblinear stub (DESIGN.md appendix B): coefficients supplied by the harness; for two-class problems label index 1 carries the negated vector as in liblinear',
               'daachorse contract model; hashbrown as association list; std container models of mirsym']
MUST_REACH = ['stored weight vectors cover exactly their own window', 'trained model scores equal the learned quantised function', 'cover:windows-differ']
TECHNIQUE = 'bounded symbolic execution of rustc MIR (mirsym + z3): evaluation text symbolic, configurations/corpora/coefficients enumerated; learner stubbed at the liblinear boundary'


def jobs(tier, seed):
    js = []

    def add(cfg, cn, dn, sd, n):
        js.append({'name': 'train/%s/%s/%s/s%d/n%d' % ('-'.join(map(str, cfg)), cn, dn, sd, n), 'cfg': list(cfg), 'corpus': cn, 'dict': dn, 'seed': sd, 'n': n})
    if tier == 'quick':
        for cfg in CFGS_QUICK:
            for cn in ('abc-ba', 'mixed'):
                for dn in sorted(DICTS):
                    if dn == 'words' and cn != 'abc-ba':
                        continue
                    for n in (1, 2, 3):
                        if n == 3 and not (cfg in ((2, 2, 1, 1), (1, 1, 2, 2)) and dn == 'a-ab' and cn == 'abc-ba'):
                            continue
                        add(cfg, cn, dn, seed, n)
    else:
        # (a) the whole grid of window / n-gram sizes 0..3 (type window 3 with type n-grams only where the 8^6 table is affordable) on one corpus and dictionary
        grid = [(a, b, c, d) for a in range(4) for b in range(4) for c in range(4) for d in range(4) if not (c == 3 and d > 0 and (a, b) not in ((3, 3), (1, 1), (2, 3)))]
        for cfg in grid:
            for n in (1, 2):
                add(cfg, 'abc-ba', 'a-ab', seed, n)
        # (b) the quick configurations on every corpus and dictionary, three coefficient seeds, texts up to 4 characters
        for cfg in CFGS_QUICK:
            for cn in ('abc-ba', 'mixed', 'ab-c'):
                for dn in sorted(DICTS):
                    for sd in (seed, seed + 1, seed + 2):
                        for n in (1, 2, 3, 4):
                            if n == 4 and sd != seed:
                                continue
                            add(cfg, cn, dn, sd, n)
    seen = set(); out = []
    for j in js:
        if j['name'] not in seen:
            seen.add(j['name']); out.append(j)
    out.sort(key=lambda j: -j['n'])
    return out


def train_and_build(e, prog, job):
    cfg = tuple(job['cfg'])
    words, max_len = DICTS[job['dict']]
    coef = T.CoefTable(job['seed'])
    e.ll = {'build': 'ok', 'coef': coef, 'log': [], 'label_order': 'choose'}
    cells = [T.make_sentence(e, prog, kind, text) for kind, text in T.CORPORA[job['corpus']]]
    r = T.new_trainer(e, prog, cfg, words, max_len)
    if r.var != 'Ok':
        raise Panic('Trainer::new failed')
    tcell = Cell(r.f[0].v)
    for c in cells:
        T.add_example(e, prog, tcell, c)
    fids = T.feature_ids(e, tcell)
    rt = T.train(e, prog, tcell)
    out = {'fids': fids, 'ok': rt.var == 'Ok', 'cfg': cfg, 'words': words, 'max_len': max_len}
    if rt.var != 'Ok':
        return out
    model = rt.f[0].v
    m = e.ll['log'][0]['model']
    wb = m.labels.index(1) if 1 in m.labels else None
    bias_raw = coef(m.no, 0, wb, m)
    wmax = abs(bias_raw)
    for fid in range(1, m.nfeat + 1):
        wmax = max(wmax, abs(coef(m.no, fid, wb, m)))
    mult = wmax / float(T.QMAX)
    out['qbias'] = T.quantize(bias_raw, mult)
    out['q'] = {f: T.quantize(coef(m.no, fid, wb, m), mult) for f, fid in fids.items()}
    out['model'] = model
    rp = P.new_predictor(e, prog, deep_clone(model), False)
    out['pred_ok'] = rp.var == 'Ok'
    if rp.var == 'Ok':
        out['pred'] = Cell(rp.f[0].v)
    return out


def model_tables(model):
    md = model.f[0].v
    get = lambda nm: hlib.fval(md, nm)
    chars = {}
    for d in seq_values(get('char_ngram_model').f[0].v):
        chars[bytes(b.conc() for b in str_bytes(hlib.fval(d, 'ngram'))).decode('utf-8')] = [P.signed32(x.conc()) for x in seq_values(hlib.fval(d, 'weights'))]
    types = {}
    for d in seq_values(get('type_ngram_model').f[0].v):
        types[tuple(b.conc() for b in seq_values(hlib.fval(d, 'ngram')))] = [P.signed32(x.conc()) for x in seq_values(hlib.fval(d, 'weights'))]
    return chars, types


def make(e, progs, job):
    prog = progs['core']
    st = {}

    def harness(e):
        tr = e.memo(('train', job['name'].rsplit('/', 1)[0]), lambda: train_and_build(e, prog, job))
        st['tr'] = tr
        if not tr['ok']:
            e.cover('train-returned-error')
            return
        cw, cn, tw, tn = tr['cfg']
        if cw != tw:
            e.cover('windows-differ')
        # structural clause
        chars, types = model_tables(tr['model'])
        oks = True
        for f, q in tr['q'].items():
            if q == 0:
                continue
            if f[0] == 'char':
                vec = chars.get(f[1]); W = cw
            elif f[0] == 'type':
                vec = types.get(f[1]); W = tw
            else:
                continue
            ln = len(f[1])
            if vec is None or len(vec) != 2 * W - ln + 1:
                oks = False; continue
            idx = W - ln - f[2]
            if not (0 <= idx < len(vec)) or vec[idx] != q:
                oks = False
        for tab, W in ((chars, cw), (types, tw)):
            for g, vec in tab.items():
                if len(vec) != 2 * W - len(g) + 1:
                    oks = False
        e.check(oks, 'stored weight vectors cover exactly their own window')
        if not tr.get('pred_ok'):
            e.fail('predictor accepts the trained model')
            return
        # behavioural clause on a symbolic evaluation text
        alpha = ''
        for kind, text in T.CORPORA[job['corpus']]:
            for ch in text:
                if ch not in alpha and ch not in ' /-|\\':
                    alpha += ch
        ss = S.sym_string(e, 'x', job['n'], alpha, exclude='\0')
        st['s'] = ss
        r = S.new_sentence(e, prog, 'raw', hlib.build_str(e, ss.chars))
        cell = Cell(r.f[0].v)
        shape = {'type': ['R'] if tn and tw else [], 'tw': tw}
        types_v = P.prepare_types(e, prog, cell, shape)
        S.call(e, prog, 'Predictor', 'predict', [Ref(tr['pred']), Ref(cell)])
        scores = seq_values(S.call(e, prog, 'Sentence', 'boundary_scores', [Ref(cell)]))
        n = job['n']
        tvals = [t if isinstance(t, Int) else Int(t, 8) for t in types_v]
        okb = len(scores) == n - 1
        if okb:
            for i in range(n - 1):
                want = tr['qbias']
                for f, q in tr['q'].items():
                    if q == 0:
                        continue
                    if f[0] in ('char', 'type'):
                        ln = len(f[1]); W = cw if f[0] == 'char' else tw
                        j = i + 1 + f[2]
                        if j < 0 or j + ln > n or j < i + 1 - W or j + ln > i + 1 + W:
                            continue
                        elems = ss.chars if f[0] == 'char' else tvals
                        pat = [Int(ord(c), 32) for c in f[1]] if f[0] == 'char' else [Int(x, 8) for x in f[1]]
                        if all(elem_eq(e, elems[j + k], pat[k]) for k in range(ln)):
                            want += q
                    else:
                        # dictionary feature (bucket, side): every occurrence of every dictionary word of that bucket touching boundary i
                        for w in tr['words']:
                            m = len(w)
                            if min(m, tr['max_len']) != f[1]:
                                continue
                            pat = [Int(ord(c), 32) for c in w]
                            for s0 in range(0, n - m + 1):
                                e0 = s0 + m
                                hit = (f[2] == 'left' and s0 - 1 == i) or (f[2] == 'inside' and s0 <= i <= e0 - 2) or (f[2] == 'right' and e0 - 1 == i)
                                if hit and all(elem_eq(e, ss.chars[s0 + k], pat[k]) for k in range(m)):
                                    want += q
                okb = b_and(okb, e.binop('Eq', scores[i], Int(want, 32, True)))
        e.check(okb, 'trained model scores equal the learned quantised function')

    def describe(m):
        tr = st.get('tr', {})
        words, max_len = DICTS[job['dict']]
        text = st['s'].py(m) if 's' in st else 'ab'
        corpus = [{'kind': k, 'text': t} for k, t in T.CORPORA[job['corpus']]]
        return {'property': ID, 'job': job, 'cfg': job['cfg'], 'dict': words, 'max_len': max_len, 'corpus': corpus, 'text': text,
                'ops': [{'op': 'train', 'id': 'm', 'cfg': job['cfg'], 'dict': words, 'max_len': max_len, 'corpus': corpus, 'tag_dict': [], 'solver': '1'}]}

    def sample():
        if 's' not in st or e.solver is None or e._check() != z3.sat:
            return {'job': job['name']}
        return {'job': job['name'], 'evaluation_text': st['s'].py(e.solver.model())}
    e.sample = sample
    return harness, describe


def role(v):
    d = v.get('data') or {}
    msg = v['msg']
    cfg = d.get('cfg', [0, 0, 0, 0])
    diff = 'windows-differ' if cfg[0] != cfg[2] else 'windows-equal'
    if v['kind'] != 'assert' or msg.startswith('MIR assert'):
        return 'panic:%s:%s:%s' % (hlib.panic_site(v), hlib.panic_kind(msg), diff)
    return '%s:%s' % (msg, diff)


def confirm(sc, replay):
    """native confirmation (real liblinear, no hooks): training must not panic and every stored n-gram vector of the native model must have
    length 2*W_own - len + 1"""
    text = sc.get('text') or 'ab'
    res = replay.run(sc['ops'] + [{'op': 'predictor', 'id': 'p', 'model': 'm', 'tags': False}, {'op': 'sentence', 'id': 's', 'kind': 'raw', 'text': text},
                                  {'op': 'predict', 's': 's', 'p': 'p'}, {'op': 'observe', 's': 's'}])
    r = res[0]
    if 'panic' in r:
        return True, {'native_violations': ['train panicked: ' + str(r['panic'])]}
    if 'model' not in r:
        return False, {'native': r}
    mj = r['model']
    if any(isinstance(x, dict) and 'panic' in x for x in res[1:]):
        return True, {'native_violations': ['predicting with the natively trained model panicked']}
    if isinstance(res[-1], dict) and 'scores' in res[-1] and isinstance(res[-1]['scores'], list):
        want = P.concrete_scores(mj, text)
        if res[-1]['scores'] != want:
            return True, {'native_violations': ['the natively trained model stores weights that prediction does not apply: scores %r, stored weights give %r' % (res[-1]['scores'], want)],
                          'model': mj}
    cw, tw = mj['char_window_size'], mj['type_window_size']
    bad = []
    for d in mj['char_ngrams']:
        if len(d['weights']) != 2 * cw - len(d['ngram']) + 1:
            bad.append('char n-gram %r has %d weights, own window needs %d' % (d['ngram'], len(d['weights']), 2 * cw - len(d['ngram']) + 1))
    for d in mj['type_ngrams']:
        if len(d['weights']) != 2 * tw - len(d['ngram']) + 1:
            bad.append('type n-gram %r has %d weights, own window needs %d' % (d['ngram'], len(d['weights']), 2 * tw - len(d['ngram']) + 1))
    # dictionary words: left / inside* / right of the word's length bucket, one weight per boundary position of the word
    max_len = sc.get('max_len') or 1
    buckets = {}
    for d in mj.get('dict', []):
        n = len(d['word']); w = d['weights']
        if len(w) != n + 1:
            bad.append('dictionary word %r (%d chars) has %d weights, needs %d' % (d['word'], n, len(w), n + 1))
            continue
        if len(set(w[1:n])) > 1:
            bad.append('dictionary word %r has differing inside weights %r' % (d['word'], w))
            continue
        key = (w[0], w[1] if n > 1 else None, w[-1])
        b = min(n, max_len) - 1
        prev = buckets.setdefault(b, key)
        if prev[0] != key[0] or prev[2] != key[2] or (prev[1] is not None and key[1] is not None and prev[1] != key[1]):
            bad.append('dictionary words of length bucket %d carry different left/inside/right weights: %r vs %r' % (b + 1, prev, key))
        if prev[1] is None and key[1] is not None:
            buckets[b] = key
    return bool(bad), {'native_violations': bad[:5]}
