"""Shared pieces of the trainer harnesses (C09–C12): running Trainer::{new, add_example, train} in the engine over the
stub learner, decoding the trainer's private state, the documented feature definition (python), quantisation."""
import math
import random

import z3

from values import *
import hlib
import sentlib as S
import predlib as P
from models.m_seq import seq_values
from models.m_str import str_bytes
from models.m_core import deref_all

NWB, WB, UNK = 0, 1, 2
QMAX = 32767

CORPORA = {
    'ab-c': [('tokenized', 'ab c')],
    'abc-ba': [('tokenized', 'ab c'), ('tokenized', 'b a')],
    'mixed': [('tokenized', 'a1 あ'), ('partial', 'a-b|a b')],
    'one-char': [('tokenized', 'a')],
    'tagged': [('tokenized', 'ab/N c/X ab/V'), ('tokenized', 'c/Y a b/P')],
    'tagged-partial': [('partial', 'a/N-b|c/X c/Y|a'), ('tokenized', 'c//Z ab/N')],
}


class CoefTable:
    """learner coefficients supplied by the harness: a deterministic function of (seed, problem, feature id, label index)"""
    VALUES = [0.0, 1.0, -1.0, 0.5, -0.25, 3.75, -2.5, 1e-3, -7e-4, 123.456, -77.7, 0.0, 2.0, 1e-9]

    def __init__(self, seed, binary_negation=True):
        self.seed = seed; self.binary_negation = binary_negation; self.cache = {}

    def __call__(self, problem_no, fid, lab, m):
        # liblinear stores one weight vector for two-class problems: label index 1 is the negation of label index 0
        if self.binary_negation and len(m.labels) == 2 and lab == 1:
            return -self(problem_no, fid, 0, m)
        key = (problem_no, fid, lab)
        if key not in self.cache:
            rnd = random.Random(hash((self.seed, problem_no, fid, lab)) & 0xffffffff)
            self.cache[key] = rnd.choice(self.VALUES)
        return self.cache[key]


def quantize(x, mult):
    q = x / mult
    return int(q)       # truncation toward zero, as f64::to_int_unchecked::<i32>


def make_sentence(e, prog, kind, text, labels=None):
    r = S.new_sentence(e, prog, kind, mk_str(text))
    if r.var != 'Ok':
        raise Panic('corpus sentence rejected: %r' % text)
    cell = Cell(r.f[0].v)
    if labels is not None:
        for cl, l in zip(S.call(e, prog, 'Sentence', 'boundaries_mut', [Ref(cell)]).cells(), labels):
            cl.v = Int(l, 8)
    return cell


def sentence_info(e, prog, cell):
    """(text, labels, types) concrete"""
    o_raw = bytes(b.conc() for b in str_bytes(S.call(e, prog, 'Sentence', 'as_raw_text', [Ref(cell)]))).decode('utf-8')
    labels = [b.conc() for b in seq_values(S.call(e, prog, 'Sentence', 'boundaries', [Ref(cell)]))]
    types = [b.conc() for b in seq_values(S.call(e, prog, 'Sentence', 'char_types', [Ref(cell)]))]
    return o_raw, labels, types


def new_trainer(e, prog, cfg, dict_words, max_len, tagdict_cells=()):
    tagdict = Seq([c.v for c in tagdict_cells])
    args = [u8(cfg[0]), u8(cfg[1]), u8(cfg[2]), u8(cfg[3]), Seq([mk_str(w) for w in dict_words]), u8(max_len), SliceRef(tagdict, 0, len(tagdict.e))]
    return e.run(hlib.fn(prog, 'Trainer', 'new'), args)


def add_example(e, prog, tcell, scell):
    return S.call(e, prog, 'Trainer', 'add_example', [Ref(tcell), Ref(scell)])


def train(e, prog, tcell, solver=1):
    st = e.unit_variant('SolverType', {0: 'L2RegularizedLogistic', 1: 'L2RegularizedL2LossSVCDual', 2: 'L2RegularizedL2LossSVC', 3: 'L2RegularizedL1LossSVCDual',
                                       4: 'CrammerSingerSVC', 5: 'L1RegularizedL2LossSVC', 6: 'L1RegularizedLogistic', 7: 'L2RegularizedLogisticDual'}[solver])
    return e.run(hlib.fn(prog, 'Trainer', 'train'), [tcell.v, Float(0.01), Float(1.0), st])


def decode_feature(e, f):
    """BoundaryFeature / TagFeature enum value -> python tuple"""
    f = deref_all(f)
    inner = deref_all(f.f[0].v)
    if f.var == 'CharacterNgram':
        return ('char', bytes(b.conc() for b in str_bytes(inner.f[0].v)).decode('utf-8'), inner.f[1].v.conc())
    if f.var == 'CharacterTypeNgram':
        return ('type', tuple(b.conc() for b in seq_values(inner.f[0].v)), inner.f[1].v.conc())
    pos = inner.f[1].v
    pidx = pos.conc() if isinstance(pos, Int) else e.prog.enum_index(pos.ty, pos.var)
    return ('dict', inner.f[0].v.conc(), ('left', 'inside', 'right')[pidx])


def feature_ids(e, tcell):
    """the trainer's private feature id map, decoded: python feature tuple -> id"""
    m = hlib.fval(tcell.v, 'feature_ids')
    out = {}
    for k, c in m.items:
        out[decode_feature(e, k)] = c.v.conc()
    return out


# ---------------------------------------------------------------------------------------------
# the documented feature definition

def boundary_features(text, types, i, cfg, dict_words, max_len):
    """features of boundary i (between char i and i+1) -> dict feature -> multiplicity"""
    cw, cn, tw, tn = cfg
    n = len(text)
    out = {}

    def add(f):
        out[f] = out.get(f, 0) + 1
    for ln in range(1, cn + 1):
        for j in range(max(0, i + 1 - cw), n):
            if j + ln <= min(n, i + 1 + cw):
                add(('char', text[j:j + ln], j - i - 1))
    for ln in range(1, tn + 1):
        for j in range(max(0, i + 1 - tw), n):
            if j + ln <= min(n, i + 1 + tw):
                add(('type', tuple(types[j:j + ln]), j - i - 1))
    for w in dict_words:
        m = len(w)
        for s in range(0, n - m + 1):
            if text[s:s + m] == w:
                e_ = s + m
                b = min(m, max_len)
                if s - 1 == i:
                    add(('dict', b, 'left'))
                if s <= i <= e_ - 2:
                    add(('dict', b, 'inside'))
                if e_ - 1 == i and e_ != n:
                    add(('dict', b, 'right'))
    return out


def expected_examples(sentences, cfg, dict_words, max_len):
    """sentences: list of (text, labels, types) -> list of (label, feature multiset) in order"""
    out = []
    for text, labels, types in sentences:
        for i, l in enumerate(labels):
            if l == UNK:
                continue
            out.append((float(l), boundary_features(text, types, i, cfg, dict_words, max_len)))
    return out
