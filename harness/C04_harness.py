"""C04 — partial-annotation format round-trips (write -> parse identity incl. Unknown labels and tags on any character)."""
import rtlib

ID = 'C04'
FMT = 'partial'
PROGRAMS = rtlib.PROGRAMS
UNIT_CAP = 300
BUDGET_S = {'quick': 600, 'thorough': 1200}      # wall-clock safety caps (exceeding one is reported as inconclusive); typical quick runs take 1-200 s
SP = ' /\\-|'
BOUNDS = {
    'quick': {'write_parse': 'text <=3 chars over all scalar values, labels {|,-,space}^(n-1); tags on any character: <=2 per character, each absent or '
                             '1 symbolic char over all scalar values incl. the delimiters / - | space and backslash (2 chars for 1-char sentences)',
              'idempotence': 'every string of <=4 scalar values accepted by from_partial_annotation'},
    'thorough': {'write_parse': 'text <=4 chars, tags of <=2 symbolic chars', 'idempotence': 'every string of <=5 scalar values'},
}
OUTSIDE = 'longer texts/tags, more than 2 tags per character, tag presence patterns outside the job list'
EXPLANATION = ('write_partial_annotation_text and from_partial_annotation/parse_partial_annotation are executed symbolically (MIR) on a sentence '
               'built through the public API with symbolic characters, symbolic labels in {WB,NB,Unknown} and symbolic tags on any character; z3 '
               'decides on every path that parsing the written text gives back the same raw text, label vector and per-character tags.')
ASSUMPTIONS = ['std String/Vec/iterator models of mirsym', 'sentences are built with from_raw + boundaries_mut + reset_tags/tags_mut; tags are non-empty and NUL-free as the property states']
MUST_REACH = ['raw text survives the round trip', 'per-character tags survive the round trip (up to trailing absent tags)', 'write-after-parse is idempotent', 'cover:rejected']


def jobs(tier, seed):
    js = []

    def wp(n, nt, pat, tspec=SP, tagspec=SP, reuse=False):
        js.append({'name': 'wp/n%d/t%d/%s/%s%s' % (n, nt, pat or '-', 'full' if tspec else 'plain', '/reuse' if reuse else ''), 'kind': 'wp', 'n': n, 'n_tags': nt,
                   'pattern': pat, 'text_specials': tspec, 'tag_specials': tagspec, 'reuse': reuse})
    maxn = 3 if tier == 'quick' else 4
    for n in range(1, maxn + 1):
        wp(n, 0, '')
    for pat in ('10', '01', '11'):
        wp(2, 1, pat, tspec='')
    for pat in ('10', '01', '11', '20', '02'):
        wp(1, 2, pat, tspec='-')
    for pat in ('1001', '0110'):
        wp(2, 2, pat, tspec='')
    # the written text parsed by update_* into a sentence object that held other tagged content before
    for n, nt, pat in ((1, 0, ''), (2, 0, ''), (2, 1, '01'), (2, 1, '10'), (1, 2, '01'), (1, 2, '10'), (2, 2, '0110')):
        wp(n, nt, pat, tspec='', tagspec='', reuse=True)
    if tier == 'thorough':
        for pat in ('21', '12', '22'):
            wp(2, 1, pat, tspec='')
        for pat in ('21', '12', '22'):
            wp(1, 2, pat)
        for pat in ('100', '010', '001', '101', '111'):
            wp(3, 1, pat, tspec='')
        wp(2, 2, '1011', tspec='')
    for n in range(0, (4 if tier == 'quick' else 5) + 1):
        js.append({'name': 'idem/%d' % n, 'kind': 'idem', 'n': n, 'n_tags': 0, 'text_specials': SP + '\0'})
    js.sort(key=lambda j: -(j['n'] + sum(int(c) for c in j.get('pattern', '') or '0')))
    return js


def make(e, progs, job):
    return rtlib.make(e, progs, job, FMT)


def role(v):
    return rtlib.role(v, FMT)


def confirm(sc, replay):
    return rtlib.confirm(sc, replay)


def validate(progs, replay, seed, tier):
    return rtlib.validate(progs, replay, seed, tier, FMT)
