#!/bin/bash
# usage: seedrun.sh <seed-id> <check ...>   — apply /verif/seeded/<seed-id>/patch.diff to /repo, run the checks, undo
set -u
id=$1; shift
cd /repo && git status --short | grep -v '^??' | head -1 | grep -q . && { echo "/repo not clean"; exit 9; }
git -C /repo apply /verif/seeded/$id/patch.diff || { echo "patch does not apply"; exit 9; }
for c in "$@"; do
  (cd /verif && VERIF_EVIDENCE_DIR=/tmp/seed_evidence timeout 1500 ./check $c --no-validate > /tmp/seedrun_${id}_$c.log 2>&1; echo "$id $c exit=$? $(grep -c '^VIOLATION' /tmp/seedrun_${id}_$c.log) violation line(s): $(grep -m2 'role=' /tmp/seedrun_${id}_$c.log | tr '\n' ' ' | cut -c1-300)")
done
git -C /repo checkout -- .
