#!/bin/bash
# Build everything the checks need, offline, from files on disk.
set -e
cd "$(dirname "$0")"
export CARGO_NET_OFFLINE=true
python3-vt -c "import z3; print('z3', z3.get_version_string())"
# warm the MIR dump (nightly build of the dependency tree) and the native replay driver
python3-vt mirsym/mirdump.py vaporetto train,kytea > /dev/null
( cd replay && CARGO_TARGET_DIR=${VERIF_REPLAY_TARGET:-/var/tmp/vpverif-target-replay} cargo build --offline --quiet )
echo setup ok
