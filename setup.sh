#!/bin/bash
# Build everything the checks need, offline, from files on disk.
set -e
cd "$(dirname "$0")"
export CARGO_NET_OFFLINE=true
python3-vt -c "import z3; print('z3', z3.get_version_string())"
# warm the MIR dumps (nightly build of the dependency tree) of every program the harnesses load, and the native drivers
python3-vt - <<'PY'
import sys, importlib, glob, os
sys.path.insert(0, 'mirsym'); sys.path.insert(0, 'harness')
import mirdump
seen = set()
for p in sorted(glob.glob('harness/C*_harness.py')):
    mod = importlib.import_module(os.path.basename(p)[:-3])
    for name, kw in getattr(mod, 'PROGRAMS', {}).items():
        key = repr(sorted(kw.items(), key=lambda kv: kv[0]))
        if key in seen:
            continue
        seen.add(key)
        try:
            mirdump.load_program(**kw)
        except Exception as ex:       # a check reports this itself (exit 2); setup keeps going
            print('warm-up of %s/%s failed: %s' % (mod.ID, name, ex))
print('programs warmed:', len(seen))
PY
( cd replay && CARGO_TARGET_DIR=${VERIF_REPLAY_TARGET:-/var/tmp/vpverif-target-replay} cargo build --offline --quiet )
( cd /repo && CARGO_TARGET_DIR=${VERIF_CLI_TARGET:-/var/tmp/vpverif-target-cli} cargo build --offline --quiet -p predict -p evaluate ) || echo "cli build failed (C20 reports it)"
echo setup ok
