"""Source-derived indices that the MIR text does not carry:

* impl span ("<impl at file:l:c: l:c>") -> (self type head, trait head or None, full self type text)
* enum definitions: name -> [(variant, explicit discriminant or None)], after evaluating #[cfg(feature=..)]
* struct definitions: name -> [field names] (cfg evaluated), for field access by name in harnesses

Everything is read from the source tree the dump was produced from (the scratch copy of /repo), on
every run.
"""
import os
import re

from mirparse import strip_generics


def _balanced_skip(s, k, open_c='<', close_c='>'):
    depth = 0
    n = len(s)
    while k < n:
        c = s[k]
        if c == open_c:
            depth += 1
        elif c == close_c and s[k - 1] not in '-=':
            depth -= 1
            if depth == 0:
                return k + 1
        k += 1
    return n


def head_name(ty):
    """`&'a mut foo::Bar<X>` -> `Bar`; `[u8]` -> `[]`; `(A, B)` -> `()`; `&str` -> `str`."""
    t = ty.strip()
    while True:
        if t.startswith('&'):
            t = t[1:].lstrip()
            m = re.match(r"'\w+\s+", t)
            if m:
                t = t[m.end():]
            if t.startswith('mut '):
                t = t[4:]
            continue
        if t.startswith('dyn '):
            t = t[4:]; continue
        break
    if t.startswith('['):
        return '[]'
    if t.startswith('('):
        return '()'
    t = strip_generics(t)
    return t.split('::')[-1].strip()


def eval_cfg(expr, features, test=False):
    expr = expr.strip()
    m = re.match(r'feature\s*=\s*"([^"]*)"$', expr)
    if m:
        return m.group(1) in features
    if expr == 'test':
        return test
    if expr == 'docsrs' or expr == 'kani':
        return False
    for op in ('all', 'any', 'not'):
        if expr.startswith(op + '('):
            inner = expr[len(op) + 1:-1]
            parts = _split_commas(inner)
            vals = [eval_cfg(p, features, test) for p in parts if p.strip()]
            if op == 'all':
                return all(vals)
            if op == 'any':
                return any(vals)
            return not vals[0]
    # unknown predicate (target_arch etc.): treat as false
    return False


def _split_commas(s):
    out = []; depth = 0; cur = ''
    for c in s:
        if c == '(':
            depth += 1
        elif c == ')':
            depth -= 1
        if c == ',' and depth == 0:
            out.append(cur); cur = ''
        else:
            cur += c
    if cur.strip():
        out.append(cur)
    return out


def _strip_comments(src):
    # keep line structure (spans refer to original lines/cols); replace comment text by spaces
    out = []
    i = 0; n = len(src)
    in_str = False
    while i < n:
        c = src[i]
        if in_str:
            out.append(c)
            if c == '\\':
                i += 1
                if i < n:
                    out.append(src[i])
            elif c == '"':
                in_str = False
            i += 1
            continue
        if c == '"':
            in_str = True; out.append(c); i += 1; continue
        if src.startswith('//', i):
            j = src.find('\n', i)
            if j == -1:
                j = n
            out.append(' ' * (j - i)); i = j; continue
        if src.startswith('/*', i):
            j = src.find('*/', i)
            j = n if j == -1 else j + 2
            out.append(re.sub(r'[^\n]', ' ', src[i:j])); i = j; continue
        out.append(c); i += 1
    return ''.join(out)


class SourceIndex:
    def __init__(self, root, features):
        self.root = root
        self.features = set(features)
        self._files = {}
        self.enums = {}
        self.enum_info = {}
        self.structs = {}
        self._impl_cache = {}

    def file(self, rel):
        if rel not in self._files:
            p = rel if os.path.isabs(rel) else os.path.join(self.root, rel)
            try:
                src = open(p, encoding='utf-8').read()
            except OSError:
                src = ''
            self._files[rel] = _strip_comments(src)
        return self._files[rel]

    # ---- impl spans -------------------------------------------------------------------------
    def impl_info(self, span):
        """span = (file, l1, c1, l2, c2) -> (self_head, trait_head|None, self_text, trait_text|None)"""
        if span in self._impl_cache:
            return self._impl_cache[span]
        rel, l1, c1, l2, c2 = span
        src = self.file(rel)
        lines = src.split('\n')
        r = (None, None, None, None)
        if 0 < l1 <= len(lines):
            if l1 == l2:
                text = lines[l1 - 1][c1 - 1:c2 - 1]
            else:
                text = lines[l1 - 1][c1 - 1:] + ' ' + ' '.join(lines[l1:l2 - 1]) + ' ' + lines[l2 - 1][:c2 - 1]
            text = ' '.join(text.split())
            if text.startswith('impl'):
                r = self._parse_impl_header(text)
            elif 'impl_borrow_decode!' in text or 'impl_borrow_decode' in lines[l1 - 1]:
                m = re.search(r'impl_borrow_decode!\(([^)]*)\)', lines[l1 - 1])
                ty = m.group(1) if m else text
                r = (head_name(ty), 'BorrowDecode', ty, 'BorrowDecode')
            else:
                # derive: text is the trait name, the self type is the next struct/enum item
                trait = text.strip()
                ty = None
                full = None
                for k in range(l1 - 1, min(len(lines), l1 + 40)):
                    m = re.search(r'\b(?:struct|enum|union)\s+(\w+)', lines[k])
                    if m:
                        ty = m.group(1)
                        rest = lines[k][m.end():]
                        full = ty
                        if rest.startswith('<'):
                            e = _balanced_skip(rest, 0)
                            gen = rest[1:e - 1]
                            # keep only the parameter names (drop bounds / defaults)
                            names = [re.split(r'[:=]', g)[0].strip() for g in _split_commas(gen.replace('<', '(').replace('>', ')'))]
                            names = [g for g in names if g and not g.startswith("'")]
                            if names:
                                full = '%s<%s>' % (ty, ', '.join(names))
                        break
                r = (ty, head_name(trait), full or ty, trait)
        self._impl_cache[span] = r
        return r

    @staticmethod
    def _parse_impl_header(text):
        t = text[4:].lstrip()
        if t.startswith('<'):
            t = t[_balanced_skip(t, 0):].lstrip()
        # cut a trailing where clause / brace
        t = re.split(r'\bwhere\b', t)[0].strip().rstrip('{').strip()
        # split on top-level ' for '
        depth = 0; k = 0; pos = -1
        while k < len(t):
            c = t[k]
            if c == '<':
                depth += 1
            elif c == '>' and t[k - 1] not in '-=':
                depth -= 1
            elif depth == 0 and t.startswith(' for ', k):
                pos = k; break
            k += 1
        if pos >= 0:
            trait = t[:pos].strip(); ty = t[pos + 5:].strip()
            return (head_name(ty), head_name(trait), ty, trait)
        return (head_name(t), None, t, None)

    # ---- enum / struct definitions ------------------------------------------------------------
    def scan_items(self, rel_files):
        for rel in rel_files:
            src = self.file(rel)
            for m in re.finditer(r'\b(enum|struct)\s+(\w+)', src):
                kind, name = m.group(1), m.group(2)
                k = m.end()
                if k < len(src) and src[k] == '<':
                    k = _balanced_skip(src, k)
                # find body start
                j = k
                while j < len(src) and src[j] not in '{(;':
                    j += 1
                if j >= len(src) or src[j] == ';':
                    continue
                if not self._item_enabled(src, m.start()):
                    continue
                if src[j] == '(':
                    if kind == 'struct':
                        self.structs.setdefault(name, None)      # tuple struct: positional
                    continue
                e = self._match_brace(src, j)
                body = src[j + 1:e]
                if kind == 'enum':
                    vs = self._parse_variants(body)
                    self.enums[name] = [(v[0], v[1]) for v in vs]
                    clike = all(not v[2] for v in vs)
                    pre = src[max(0, m.start() - 400):m.start()]
                    mr = None
                    for mr in re.finditer(r'#\[repr\((\w+)\)\]', pre.split('}')[-1]):
                        pass
                    bits, signed = 64, True
                    if mr is not None:
                        mm = re.match(r'(u|i)(8|16|32|64|size)$', mr.group(1))
                        if mm:
                            bits = 64 if mm.group(2) == 'size' else int(mm.group(2)); signed = mm.group(1) == 'i'
                    vals = {}
                    nxt = 0
                    for i, v in enumerate(vs):
                        d = v[1] if v[1] is not None else nxt
                        vals[v[0]] = d if clike else i
                        nxt = d + 1
                    self.enum_info[name] = {'clike': clike, 'values': vals, 'bits': bits, 'signed': signed}
                else:
                    self.structs[name] = self._parse_fields(body)

    def _item_enabled(self, src, pos):
        # look at attributes directly preceding the item
        head = src[:pos]
        lines = head.split('\n')
        k = len(lines) - 2
        ok = True
        while k >= 0:
            t = lines[k].strip()
            if t.startswith('#[') or t.startswith('#!['):
                m = re.match(r'#\[cfg\((.*)\)\]$', t)
                if m and not eval_cfg(m.group(1), self.features):
                    ok = False
                k -= 1; continue
            if t == '' or t.startswith(')') or t.endswith(')]') or t.startswith('"') or t.startswith('feature') or t.startswith('doc'):
                # part of a multi-line attribute or blank: be permissive for a few lines
                if t == '':
                    break
                k -= 1; continue
            break
        return ok

    @staticmethod
    def _match_brace(src, j):
        depth = 0
        for k in range(j, len(src)):
            if src[k] == '{':
                depth += 1
            elif src[k] == '}':
                depth -= 1
                if depth == 0:
                    return k
        return len(src)

    def _entries(self, body):
        """split a struct/enum body into top-level comma separated entries with their attributes"""
        out = []; depth = 0; cur = ''
        for c in body:
            if c in '([{<':
                depth += 1
            elif c in ')]}>':
                depth -= 1
            if c == ',' and depth == 0:
                out.append(cur); cur = ''
            else:
                cur += c
        if cur.strip():
            out.append(cur)
        res = []
        for e in out:
            e = e.strip()
            enabled = True
            while e.startswith('#['):
                depth = 0
                for k, c in enumerate(e):
                    if c == '[':
                        depth += 1
                    elif c == ']':
                        depth -= 1
                        if depth == 0:
                            break
                attr = e[:k + 1]; e = e[k + 1:].strip()
                m = re.match(r'#\[cfg\((.*)\)\]$', ' '.join(attr.split()), re.S)
                if m and not eval_cfg(m.group(1), self.features):
                    enabled = False
            if enabled and e:
                res.append(e)
        return res

    def _parse_variants(self, body):
        vs = []
        for e in self._entries(body):
            m = re.match(r'(\w+)', e)
            if not m:
                continue
            name = m.group(1)
            md = re.search(r'=\s*(-?\d+)\s*$', e)
            rest = e[m.end():].lstrip()
            vs.append((name, int(md.group(1)) if md else None, rest.startswith('(') or rest.startswith('{')))
        return vs

    def _parse_fields(self, body):
        fs = []
        for e in self._entries(body):
            m = re.match(r'(?:pub(?:\([^)]*\))?\s+)?(\w+)\s*:', e)
            if m:
                fs.append(m.group(1))
        return fs
