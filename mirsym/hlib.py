"""Helpers shared by the property harnesses."""
import z3

from values import *
from engine import Engine, b_and, b_or, b_not, b_z
import models
from models.m_str import encode_char, decode_char, str_bytes, utf8_valid, as_strref_any


def fn(prog, ty, method, trait=None):
    fl = prog.by_key.get((ty, trait, method))
    if not fl:
        raise Unsupported('function %s::%s not found in MIR (renamed or removed?)' % (ty, method))
    return fl[-1]


def field(agg, name):
    """field cell of a struct value by field name (names come from the MIR aggregate)"""
    if isinstance(agg, Ref):
        agg = agg.c.v
    if agg.names is None:
        raise Unsupported('no field names for %r' % (agg,))
    return agg.f[agg.names.index(name)]


def fval(agg, name):
    return field(agg, name).v


VALID_CHAR = lambda t: z3.Or(z3.ULT(t, 0xD800), z3.And(z3.UGE(t, 0xE000), z3.ULT(t, 0x110000)))


def sym_char(e, name, exclude_nul=False):
    """a fresh symbolic Unicode scalar value"""
    t = z3.BitVec(name, 32)
    e.add(VALID_CHAR(t))
    if exclude_nul:
        e.add(t != 0)
    return Int(t, 32, False, ('char',))


_CLASS_CACHE = {}


def sym_char_classes(e, name, specials, exclude=()):
    """A symbolic character, forked at creation into: each character of `specials` (concrete) and
    "any other scalar value" (symbolic, constrained to differ from all specials and `exclude`).
    The union of the classes is exactly the set of scalar values minus `exclude`; the fork is an
    engine branch, so the solver covers every class."""
    n = len(specials)
    k = None
    ck = (name, specials if isinstance(specials, str) else tuple(specials), exclude if isinstance(exclude, str) else tuple(exclude))
    ent = _CLASS_CACHE.get(ck)
    if ent is None:
        t = z3.BitVec(name, 32)
        conds = [t == ord(s) for s in specials]
        other = z3.And([VALID_CHAR(t)] + [t != ord(s) for s in specials] + [t != ord(x) for x in exclude])
        ent = _CLASS_CACHE[ck] = (t, conds + [other])
    t, allc = ent
    k = e.branch(allc)
    if k < n:
        return Int(ord(specials[k]), 32, False, ('char',)), t
    return Int(t, 32, False, ('char',)), t


def build_str(e, chars):
    """String value made of the given char Ints (symbolic chars fork on their UTF-8 width)"""
    s = Str()
    for c in chars:
        s.b.extend(encode_char(e, c))
    return s


def strref_of(s):
    return StrRef(s, 0, len(s.b))


def model_char(m, t):
    return m.eval(t, model_completion=True).as_long()


def model_str(m, chars):
    """concrete python string for a list of char Ints under a z3 model"""
    out = []
    for c in chars:
        if type(c.t) is int:
            out.append(chr(c.t))
        else:
            out.append(chr(m.eval(c.t, model_completion=True).as_long()))
    return ''.join(out)


def bytes_terms(bs):
    return [b.z() for b in bs]


def bytes_equal(e, xs, ys):
    """z3/py bool: two byte lists are equal"""
    from models.m_core import bytes_eq
    return bytes_eq(e, xs, ys)


def is_ok(r):
    return isinstance(r, Enum) and r.var == 'Ok'


def is_err(r):
    return isinstance(r, Enum) and r.var == 'Err'


def unwrap(r):
    return r.f[0].v


def opt_is_some(v):
    return v.var == 'Some'


def concrete_int(e, v):
    c = v.conc()
    if c is None:
        raise Unsupported('expected concrete integer, got %r' % (v,))
    return c


def py_bytes(e, bs, m=None):
    out = bytearray()
    for b in bs:
        if type(b.t) is int:
            out.append(b.t)
        elif m is not None:
            out.append(m.eval(b.t, model_completion=True).as_long())
        else:
            raise Unsupported('symbolic byte')
    return bytes(out)


def panic_site(v):
    """function in which a panic/UB violation happened (for role keys)"""
    import re
    m = re.search(r' in (?:.*::)?(\w+)$', v['msg'])
    if m and not v['msg'].startswith('index out of') and 'model' not in v['msg']:
        return m.group(1)
    w = v.get('where') or []
    if w:
        return w[-1].split('::')[-1]
    return '?'


def panic_kind(msg):
    if 'divide' in msg or 'division' in msg:
        return 'div-by-zero'
    if 'overflow' in msg:
        return 'overflow'
    if 'UB' in msg:
        return 'ub'
    if 'index' in msg or 'range' in msg or 'bounds' in msg:
        return 'index'
    if 'unwrap' in msg or 'expect' in msg:
        return 'unwrap'
    return 'panic'
