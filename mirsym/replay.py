"""Python side of the native replay driver (/verif/replay): build it from /repo's working tree and
run JSON scenarios through it."""
import json
import os
import subprocess

_VERIF = os.path.dirname(os.path.dirname(os.path.abspath(__file__)))
REPLAY_DIR = os.path.join(_VERIF, 'replay')
TARGET = os.environ.get('VERIF_REPLAY_TARGET', '/var/tmp/vpverif-target-replay')
_built = {}


def build(profile='dev'):
    if profile in _built:
        return _built[profile]
    env = dict(os.environ)
    env['CARGO_NET_OFFLINE'] = 'true'
    env['CARGO_TARGET_DIR'] = TARGET
    env.pop('RUSTFLAGS', None)
    cmd = ['cargo', 'build', '--offline', '--quiet']
    if profile == 'release':
        cmd.append('--release')
    p = subprocess.run(cmd, cwd=REPLAY_DIR, env=env, stdout=subprocess.PIPE, stderr=subprocess.PIPE)
    if p.returncode != 0:
        raise RuntimeError('replay driver does not build against the current /repo tree:\n' + p.stderr.decode()[-4000:])
    path = os.path.join(TARGET, 'debug' if profile == 'dev' else 'release', 'vp-replay')
    _built[profile] = path
    return path


def run(ops, profile='dev', timeout=120):
    """ops: list of op dicts -> list of observation dicts (one per op)"""
    exe = build(profile)
    p = subprocess.run([exe], input=json.dumps({'ops': ops}).encode(), stdout=subprocess.PIPE, stderr=subprocess.PIPE, timeout=timeout)
    if p.returncode != 0:
        return [{'crash': p.returncode, 'stderr': p.stderr.decode()[-2000:]}]
    out = p.stdout.decode('utf-8', 'replace')
    k = out.rfind('@@RESULT@@')
    return json.loads(out[k + len('@@RESULT@@'):] if k >= 0 else out)


TANTIVY_DIR = os.path.join(_VERIF, 'replay_tantivy')
TANTIVY_TARGET = os.environ.get('VERIF_REPLAY_TANTIVY_TARGET', '/var/tmp/vpverif-target-replay-tantivy')


def run_tantivy(model_bytes, wsconst, text, timeout=120, prior=None):
    """native Tantivy token stream of `text` (driver /verif/replay_tantivy, built on demand from /repo's working tree)"""
    if 'tantivy' not in _built:
        env = dict(os.environ)
        env['CARGO_NET_OFFLINE'] = 'true'
        env['CARGO_TARGET_DIR'] = TANTIVY_TARGET
        env.pop('RUSTFLAGS', None)
        p = subprocess.run(['cargo', 'build', '--offline', '--quiet'], cwd=TANTIVY_DIR, env=env, stdout=subprocess.PIPE, stderr=subprocess.PIPE)
        if p.returncode != 0:
            raise RuntimeError('tantivy replay driver does not build against the current /repo tree:\n' + p.stderr.decode()[-4000:])
        _built['tantivy'] = os.path.join(TANTIVY_TARGET, 'debug', 'vp-replay-tantivy')
    req = {'model': list(model_bytes), 'wsconst': wsconst, 'text': text}
    if prior is not None:
        req['prior'] = prior
    p = subprocess.run([_built['tantivy']], input=json.dumps(req).encode(),
                       stdout=subprocess.PIPE, stderr=subprocess.PIPE, timeout=timeout)
    if p.returncode != 0:
        return {'crash': p.returncode, 'stderr': p.stderr.decode()[-2000:]}
    out = p.stdout.decode('utf-8', 'replace')
    k = out.rfind('@@RESULT@@')
    return json.loads(out[k + len('@@RESULT@@'):])


if __name__ == '__main__':
    import sys
    print(json.dumps(run(json.load(open(sys.argv[1]))['ops']), ensure_ascii=False, indent=1))
