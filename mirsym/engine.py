"""mirsym engine: bounded symbolic execution of rustc MIR with z3.

Exploration is depth-first *by replay*: a path is a list of branch decisions; to explore another
path the harness is re-run from the start with a different decision prefix.  No state snapshots.
"""
import os
import pickle
import re
import sys
import time
import traceback
import z3

import mirparse as P
from mirparse import strip_generics, split_top
from srcindex import head_name
from values import *

STD_ENUMS = {
    'Option': ['None', 'Some'], 'Result': ['Ok', 'Err'], 'Cow': ['Borrowed', 'Owned'],
    'ControlFlow': ['Continue', 'Break'], 'Bound': ['Included', 'Excluded', 'Unbounded'],
    # bincode 2.0.1 error enums (variant order of the crate source; `Foreign` / `TypeMismatch` are model-only stand-ins for "some other decode error")
    'DecodeError': ['UnexpectedEnd', 'LimitExceeded', 'InvalidIntegerType', 'NonZeroTypeIsZero', 'UnexpectedVariant', 'Utf8', 'InvalidCharEncoding', 'InvalidBooleanValue',
                    'ArrayLengthMismatch', 'OutsideUsizeRange', 'EmptyEnum', 'InvalidDuration', 'InvalidSystemTime', 'CStringNulError', 'Io', 'Other', 'OtherString', 'Serde',
                    'Foreign', 'TypeMismatch'],
}
STD_VARIANT_OWNER = {v: k for k, vs in STD_ENUMS.items() if k != 'DecodeError' for v in vs}       # bare variant names that identify their std enum

_INT_TY = re.compile(r'(u|i)(8|16|32|64|128|size)$')


def int_ty(ty):
    m = _INT_TY.match(ty)
    if m:
        return (64 if m.group(2) == 'size' else int(m.group(2)), m.group(1) == 'i')
    if ty == 'char':
        return (32, False)
    if ty == 'bool':
        return (1, False)
    return None


def is_bool(v):
    return v is True or v is False or isinstance(v, z3.BoolRef)


def b_not(a):
    return (not a) if isinstance(a, bool) else z3.Not(a)


def b_and(a, b):
    if isinstance(a, bool):
        return b if a else False
    if isinstance(b, bool):
        return a if b else False
    return z3.And(a, b)


def b_or(a, b):
    if isinstance(a, bool):
        return True if a else b
    if isinstance(b, bool):
        return True if b else a
    return z3.Or(a, b)


def b_z(a):
    return z3.BoolVal(a) if isinstance(a, bool) else a


def to_signed(v, bits):
    return v - (1 << bits) if v >= 1 << (bits - 1) else v


class Program:
    """parsed MIR of one crate build + source index"""

    def __init__(self, mir_text, srcidx, crate=None):
        self.fns, self.consts = P.parse_mir(mir_text)
        self.src = srcidx
        self.crate = crate
        self.by_key = {}        # (self_head, trait_head|None, method) -> [Fn]
        self.by_path = {}       # stripped path tail -> [Fn] (free functions, constructors)
        self.closures = {}      # closure location -> Fn
        self.consts_by_tail = {}
        self.struct_names = {}  # struct head -> [field names] learnt from aggregates
        self.summarizable = set()   # names of pure scalar functions merged into ite terms
        self.nstmts = 0
        for name, fl in self.fns.items():
            f = fl[-1]          # const fns are printed twice; bodies are equivalent, take the runtime one
            self.nstmts += f.nstmts
            if f.closure_loc:
                self.closures[f.closure_loc] = f
                continue
            if '{closure#' in name:
                continue
            if f.impl_span:
                sh, th, stext, ttext = srcidx.impl_info(f.impl_span)
                if sh == '$ty' or sh is None:
                    m = re.match(r'(?:std::result::)?Result<(.*), .*>$', f.ret or '')
                    sh = head_name(m.group(1)) if m else sh
                    stext = m.group(1) if m else stext
                f.debug['__impl__'] = (sh, th, stext, ttext)
                self.by_key.setdefault((sh, th, f.method), []).append(f)
            else:
                self.by_path.setdefault(strip_generics(name).split('::')[-1], []).append(f)
                self.by_path.setdefault(strip_generics(name), []).append(f)
        for key in (('CharacterType', None, 'get_type'),):
            for f in self.by_key.get(key, []):
                self.summarizable.add(f.name)
        for name, c in self.consts.items():
            if '<impl at' in name or 'promoted' in name:
                self.consts_by_tail[name] = c
                continue
            segs = name.split('::')
            for k in range(len(segs)):
                suf = '::'.join(segs[k:])
                if suf.startswith('{constant#'):
                    continue
                self.consts_by_tail.setdefault(suf, c)

    def enum_index(self, ty, var):
        vs = STD_ENUMS.get(ty)
        if vs is not None:
            return vs.index(var)
        vs = self.src.enums.get(ty)
        if vs is None:
            raise Unsupported('unknown enum %s::%s' % (ty, var))
        for i, v in enumerate(vs):
            if v[0] == var:
                return v[1] if v[1] is not None else i
        raise Unsupported('unknown variant %s::%s' % (ty, var))

    def clike(self, ty):
        """-> dict variant -> value, bits  if ty is a field-less crate enum, else None"""
        info = self.src.enum_info.get(ty) if hasattr(self.src, 'enum_info') else None
        return info


class Stats:
    def __init__(self):
        self.paths = 0; self.steps = 0; self.feas_checks = 0; self.assert_checks = 0
        self.assert_violated = 0; self.solver_s = 0.0; self.infeasible = 0; self.assert_structural = 0
        self.stubs = {}; self.fns = {}; self.reached = {}

    def merge(self, o):
        for k in ('paths', 'steps', 'feas_checks', 'assert_checks', 'assert_violated', 'solver_s', 'infeasible', 'assert_structural'):
            setattr(self, k, getattr(self, k) + getattr(o, k))
        for d, od in ((self.stubs, o.stubs), (self.fns, o.fns), (self.reached, o.reached)):
            for k, v in od.items():
                d[k] = d.get(k, 0) + v


class Violation:
    def __init__(self, kind, msg, model, decisions, where=None):
        self.kind = kind; self.msg = msg; self.model = model; self.decisions = list(decisions); self.where = where
        self.data = None

    def __repr__(self):
        return 'Violation(%s: %s)' % (self.kind, self.msg)


class LazyArms:
    """conditions of the arms of a switchInt, built when an arm is taken (the default arm is the conjunction of all disequalities)"""
    def __init__(self, t, bits, keys):
        self.t = t; self.bits = bits; self.keys = keys; self.c = {}

    def __len__(self):
        return len(self.keys)

    def __getitem__(self, i):
        c = self.c.get(i)
        if c is None:
            k = self.keys[i]
            if k is None:
                c = z3.And([self.t != z3.BitVecVal(x, self.bits) for x in self.keys if x is not None])
            else:
                c = self.t == z3.BitVecVal(k, self.bits)
            self.c[i] = c
        return c


_REF_FWD = re.compile(r'<&(.+) as (PartialEq(?:<.*>)?|PartialOrd(?:<.*>)?|Ord|Eq)>::(eq|ne|lt|le|gt|ge|cmp|partial_cmp)$')


class Engine:
    def __init__(self, prog, solver_timeout_ms=10000):
        self.prog = prog
        self.stats = Stats()
        self.solver = None
        self.decisions = []; self.pos = 0; self.pending = []
        self.timeout_ms = solver_timeout_ms
        self.violations = []
        self.callstack = []
        self.nvar = 0
        self.frame_subst = [{}]
        self._model_cache = {}
        self._resolve_cache = {}
        self._prog_caches = {}
        self.summaries = {}
        self.collect = None         # nested (summary) exploration state
        self.on_path_end = None
        self.max_paths = None
        self.inconclusive = []
        self.depth_limit = 400
        self.check_tags = {}
        self._describe = None
        self._const_cache = {}
        self.fork_mode = False
        self.is_child = False
        self._result_fd = None
        self.deadline = None
        self._memo = {}
        self._switch_cache = {}
        self.call_memo = None
        self._capture = None
        self._pure_cache = {}
        self.path_memo = {}

    def use(self, prog):
        """switch the program (MIR of another build configuration) whose code is executed; the solver, the
        path and all values are shared, the per-program caches are swapped"""
        if prog is self.prog:
            return
        self._prog_caches[id(self.prog)] = (self._resolve_cache, self.summaries, self._const_cache, self._pure_cache)
        self.prog = prog
        c = self._prog_caches.get(id(prog))
        if c is None:
            c = ({}, {}, {}, {})
        self._resolve_cache, self.summaries, self._const_cache, self._pure_cache = c

    # ------------------------------------------------------------------ symbols
    def fresh_bv(self, name, bits):
        self.nvar += 1
        return z3.BitVec(name, bits)

    # ------------------------------------------------------------------ solver plumbing
    def _check(self, *assumptions):
        t0 = time.time()
        r = self.solver.check(*assumptions)
        if r == z3.unknown:
            # a time-out may be caused by machine load: one retry with a six-fold budget before the query counts as undecided
            self.solver.set('timeout', self.timeout_ms * 6)
            try:
                r = self.solver.check(*assumptions)
            finally:
                self.solver.set('timeout', self.timeout_ms)
            self.stats.solver_retries = getattr(self.stats, 'solver_retries', 0) + 1
        self.stats.solver_s += time.time() - t0
        if r == z3.unknown:
            raise Unsupported('solver returned unknown (%s)' % self.solver.reason_unknown())
        return r

    def add(self, cond):
        if isinstance(cond, bool):
            if not cond:
                raise PathEnd()
            return
        if self.collect is not None:
            self.collect['pc'].append(cond)
        if self._capture is not None:
            self._capture.append(cond)
        self.solver.add(cond)

    def memo(self, key, builder):
        """Cache the result of a deterministic, expensive harness step (e.g. Predictor::new on a model with
        symbolic weights) across paths of this worker.  The step is re-validated by the decisions it consumed:
        a cached entry is only used when the upcoming recorded decisions equal those taken when it was built;
        the constraints it added are re-asserted.  The cached value must not be mutated afterwards."""
        ents = self._memo.setdefault(key, [])
        upcoming = self.decisions[self.pos:]
        for decs, val, log in ents:
            k = min(len(decs), len(upcoming))
            if list(decs[:k]) == list(upcoming[:k]):
                if len(upcoming) < len(decs):
                    self.decisions.extend(decs[len(upcoming):])
                self.pos += len(decs)
                for c in log:
                    self.solver.add(c)
                self.stats.memo_hits = getattr(self.stats, 'memo_hits', 0) + 1
                return val
        pos0 = self.pos
        log = []
        self._capture = log
        try:
            val = builder()
        finally:
            self._capture = None
        ents.append((tuple(self.decisions[pos0:self.pos]), val, log))
        return val

    def assume(self, cond):
        """harness-level assumption: constrain the path (ends it if infeasible)"""
        if isinstance(cond, bool):
            if not cond:
                raise PathEnd()
            return
        cond = z3.simplify(cond)
        if z3.is_true(cond):
            return
        if z3.is_false(cond):
            raise PathEnd()
        if not self.truth(cond):
            raise PathEnd()

    # ------------------------------------------------------------------ branching
    def _enum_arms(self, t, keys):
        """feasible arms of a many-armed switch on term t by model enumeration: one query per feasible arm (+1) instead of one per arm"""
        idx = {}
        default = None
        for i, k in enumerate(keys):
            if k is None:
                default = i
            else:
                idx.setdefault(k, i)
        feas = set()
        self.solver.push()
        try:
            while True:
                self.stats.feas_checks += 1
                if self._check() != z3.sat:
                    break
                val = self.solver.model().eval(t, model_completion=True).as_long()
                i = idx.get(val, default)
                if i is None:
                    self.solver.add(t != val); continue
                feas.add(i)
                if i == default:
                    if not idx:
                        break
                    ck = ('anykey', t.get_id(), len(keys))
                    ent = self._switch_cache.get(ck)
                    if ent is None:
                        ent = self._switch_cache[ck] = (t, z3.Or([t == z3.BitVecVal(k, t.size()) for k in idx]))
                    self.solver.add(ent[1])
                else:
                    self.solver.add(t != val)
        finally:
            self.solver.pop()
        return sorted(feas)

    def branch(self, conds, switch=None):
        """conds: z3 Bools, mutually exclusive and exhaustive on the current path. -> chosen index"""
        if self.pos < len(self.decisions):
            k = self.decisions[self.pos]; self.pos += 1
            self.add(conds[k]); return k
        feas = []
        for k, c in (enumerate(conds) if switch is None or len(conds) <= 8 else ()):
            if isinstance(c, bool):
                if c:
                    feas = [k]; break
                continue
            cs = z3.simplify(c)
            if z3.is_false(cs):
                continue
            if z3.is_true(cs):
                feas = [k]; break
            self.stats.feas_checks += 1
            if self._check(c) == z3.sat:
                feas.append(k)
        if switch is not None and len(conds) > 8:
            feas = self._enum_arms(*switch)
        if not feas:
            self.stats.infeasible += 1
            raise PathEnd()
        if len(feas) > 1 and self.fork_mode and self.collect is None:
            if self.deadline is not None and time.time() > self.deadline:
                raise Unsupported('time budget exhausted inside a unit of work (bound not covered)')
            for k in feas[1:]:
                if self._spawn():
                    # child process: continues this very execution on arm k (no re-execution of the prefix)
                    self.decisions.append(k); self.pos += 1
                    self.add(conds[k])
                    return k
        else:
            base = self.decisions[:self.pos]
            for k in reversed(feas[1:]):
                self.pending.append(base + [k])
        self.decisions.append(feas[0]); self.pos += 1
        self.add(conds[feas[0]])
        return feas[0]

    def choose(self, n):
        """nondeterministic choice among n alternatives (all explored): harness-level forks such as
        'length of the next grapheme cluster' or 'which class does this character belong to'"""
        if n <= 1:
            return 0
        if self.pos < len(self.decisions):
            k = self.decisions[self.pos]; self.pos += 1
            return k
        base = self.decisions[:self.pos]
        for k in range(n - 1, 0, -1):
            self.pending.append(base + [k])
        self.decisions.append(0); self.pos += 1
        return 0

    def _spawn(self):
        """fork-based DFS: the child explores the alternative arm from the current state; the parent waits
        for it (so exploration stays sequential per worker) and merges its results.  -> True in the child"""
        r, w = os.pipe()
        try:
            sys.stdout.flush(); sys.stderr.flush()
        except Exception:
            pass
        pid = os.fork()
        if pid == 0:
            os.close(r)
            self._result_fd = w
            self.is_child = True
            self.stats = Stats(); self.violations = []; self.inconclusive = []
            self.stats.paths = 1
            return True
        os.close(w)
        chunks = []
        while True:
            b = os.read(r, 1 << 16)
            if not b:
                break
            chunks.append(b)
        os.close(r)
        _, status = os.waitpid(pid, 0)
        data = b''.join(chunks)
        if status != 0 or not data:
            self.inconclusive.append('child explorer process failed (wait status %d)' % status)
        else:
            res = pickle.loads(data)
            self.stats.merge(res['stats'])
            self.violations.extend(res['violations'])
            self.inconclusive.extend(res['inconclusive'])
        return False

    def _child_exit(self, error=None):
        try:
            for v in self.violations:
                v.model = None
            if error:
                self.inconclusive.append(error)
            data = pickle.dumps({'stats': self.stats, 'violations': self.violations, 'inconclusive': self.inconclusive})
            off = 0
            while off < len(data):
                off += os.write(self._result_fd, data[off:off + (1 << 16)])
            os.close(self._result_fd)
        finally:
            os._exit(0)

    def truth(self, b):
        if b is True or b is False:
            return b
        b2 = z3.simplify(b)
        if z3.is_true(b2):
            return True
        if z3.is_false(b2):
            return False
        return self.branch([b2, z3.Not(b2)]) == 0

    def concretize(self, i, maxv=64):
        """python value of an Int, forking over its feasible values if symbolic"""
        t = i.t
        if type(t) is int:
            return t
        c = i.conc()
        if c is not None:
            return i.t
        if self.pos < len(self.decisions):
            # replay: the value list is recomputed deterministically
            pass
        vals = []
        self.solver.push()
        try:
            while len(vals) <= maxv and self._check() == z3.sat:
                v = self.solver.model().eval(t, model_completion=True).as_long()
                vals.append(v); self.solver.add(t != v)
        finally:
            self.solver.pop()
        if len(vals) > maxv:
            raise Unsupported('symbolic value with more than %d feasible values must be concretised' % maxv)
        vals.sort()
        k = self.branch([t == v for v in vals])
        return vals[k]

    def conc_usize(self, i, maxv=64):
        return self.concretize(i, maxv)

    # ------------------------------------------------------------------ property assertions
    def check(self, cond, label, describe=None):
        """property assertion: cond must hold for every value on this path"""
        self.stats.reached[label] = self.stats.reached.get(label, 0) + 1
        if cond is True:
            self.stats.assert_structural += 1
            return True
        if cond is not False:
            cond = z3.simplify(cond)
            if z3.is_true(cond):
                self.stats.assert_structural += 1
                return True
            if z3.is_false(cond):
                cond = False
        self.stats.assert_checks += 1
        if cond is False:
            r = z3.sat; neg = None
        else:
            neg = z3.Not(cond)
            r = self._check(neg)
        if r == z3.sat:
            self.stats.assert_violated += 1
            if neg is not None:
                self.solver.push(); self.solver.add(neg); self._check(); m = self.solver.model(); self.solver.pop()
            else:
                self._check(); m = self.solver.model()
            v = Violation('assert', label, None, self.decisions[:self.pos])
            describe = describe or self._describe
            if describe is not None:
                v.data = describe(m)
            self.violations.append(v)
            if cond is False or self._check(cond) != z3.sat:
                raise PathEnd()     # violated for every value on this path: nothing left to explore here
            self.add(cond)
            return False
        return True

    def fail(self, label, describe=None):
        return self.check(False, label, describe)

    def cover(self, label):
        """vacuity witness: counts paths that reach this point"""
        self.stats.reached['cover:' + label] = self.stats.reached.get('cover:' + label, 0) + 1

    # ------------------------------------------------------------------ exploration
    def explore(self, harness, prefixes=None, describe=None, budget_s=None, stop_after=None):
        """run harness on every path below the given decision prefixes"""
        self.pending = [list(p) for p in (prefixes if prefixes is not None else [[]])]
        t0 = time.time()
        while self.pending:
            if budget_s is not None and time.time() - t0 > budget_s:
                self.inconclusive.append('time budget exhausted with %d pending prefixes' % len(self.pending))
                break
            if stop_after is not None and len(self.violations) >= stop_after:
                break
            self.run_path(harness, self.pending.pop(), describe)
        return self.violations

    def run_path(self, harness, decisions, describe=None):
        self.decisions = decisions; self.pos = 0
        self.solver = z3.Solver()
        self.solver.set('timeout', self.timeout_ms)
        self._describe = describe
        self.path_memo = {}
        self.callstack = []
        self.frame_subst = [{}]
        self.collect = None
        self.stats.paths += 1
        try:
            try:
                harness(self)
            except PathEnd:
                pass
            except Panic as e:
                if self._check() == z3.sat:
                    m = self.solver.model()
                    v = Violation(e.kind, str(e), None, self.decisions[:self.pos], where=getattr(e, 'stack', None) or [f.name for f in self.callstack[-4:]])
                    if describe is not None:
                        v.data = describe(m)
                    self.violations.append(v)
        except BaseException as ex:
            if self.is_child:
                self._child_exit('%s: %s | %s' % (type(ex).__name__, ex, traceback.format_exc()[-1200:]))
            raise
        if self.is_child:
            self._child_exit()

    def frontier(self, harness, want, describe=None):
        """expand breadth-first until at least `want` pending prefixes exist (for splitting work).
        Returns the list of pending prefixes; complete paths met on the way are fully accounted."""
        self.pending = [[]]
        rounds = 0
        while self.pending and len(self.pending) < want and rounds < 10000:
            rounds += 1
            # take the shortest prefix
            self.pending.sort(key=len, reverse=True)
            p = self.pending.pop()
            self.run_path_stop_at_fork(harness, p, describe)
        return self.pending

    def run_path_stop_at_fork(self, harness, decisions, describe):
        # run one path fully (DFS semantic) — children are pushed on pending by branch()
        self.run_path(harness, decisions, describe)

    # ------------------------------------------------------------------ summaries of pure scalar functions
    def summarize(self, key, nargs_bits, runner):
        """Execute `runner(args)` on all its paths for fresh symbolic scalar args and merge the scalar
        results into one if-then-else term.  Cached per engine; instantiated by substitution."""
        s = self.summaries.get(key)
        if s is None:
            fresh = [z3.BitVec('__sum_%s_%d' % (key, i), b) for i, b in enumerate(nargs_bits)]
            saved = (self.solver, self.decisions, self.pos, self.pending, self.collect, self.callstack)
            self.solver = z3.Solver(); self.solver.set('timeout', self.timeout_ms)
            results = []
            pend = [[]]
            npaths = 0
            try:
                while pend:
                    self.decisions = pend.pop(); self.pos = 0; self.pending = pend
                    self.collect = {'pc': []}
                    self.solver.push()
                    npaths += 1
                    try:
                        r = runner([Int(v, b) for v, b in zip(fresh, nargs_bits)])
                        results.append((list(self.collect['pc']), r))
                    except PathEnd:
                        pass
                    finally:
                        self.solver.pop()
            finally:
                self.solver, self.decisions, self.pos, self.pending, self.collect, self.callstack = saved
            assert results, 'summary of %s has no feasible path' % key
            r0 = results[-1][1]
            if isinstance(r0, Int):
                term = r0.z()
                for pc, r in reversed(results[:-1]):
                    term = z3.If(z3.And(pc) if pc else z3.BoolVal(True), r.z(), term)
                s = (fresh, z3.simplify(term), ('int', r0.bits, r0.sg), npaths)
            else:
                term = b_z(r0)
                for pc, r in reversed(results[:-1]):
                    term = z3.If(z3.And(pc) if pc else z3.BoolVal(True), b_z(r), term)
                s = (fresh, z3.simplify(term), ('bool',), npaths)
            self.summaries[key] = s
        return s

    def apply_summary(self, key, nargs_bits, runner, args):
        if all(type(a.t) is int for a in args):
            return runner(args)
        fresh, term, kind, _ = self.summarize(key, nargs_bits, runner)
        t = z3.substitute(term, *[(f, a.z()) for f, a in zip(fresh, args)])
        if kind[0] == 'int':
            return Int(t, kind[1], kind[2])
        return t

    # ------------------------------------------------------------------ calls
    def stub_hit(self, name):
        if name.startswith('precondition:') or name.startswith('unsafe:'):
            # obligations of unchecked operations are reported per call site (C18)
            site = self.callstack[-1].name.split('>::')[-1] if self.callstack else '?'
            name = '%s @ %s' % (name, site)
        self.stats.stubs[name] = self.stats.stubs.get(name, 0) + 1

    def call(self, callee, args):
        import models
        sub = self.frame_subst[-1]
        if sub:
            callee = apply_subst(callee, sub)
        if callee.startswith('<&') and args and isinstance(args[0], Ref) and isinstance(args[0].c.v, Ref):
            # `impl PartialEq<&B> for &A` etc. (std forwarding impls for references): one reference layer is peeled off the operands
            m = _REF_FWD.match(callee)
            if m and m.group(1)[0] not in '[(' and not m.group(1).startswith(('str', 'mut ')):
                return self.call('<%s as %s>::%s' % (m.group(1), re.sub(r'<&', '<', m.group(2), 1) if m.group(2).startswith(('PartialEq<&', 'PartialOrd<&')) else m.group(2), m.group(3)),
                                 [a.c.v if isinstance(a, Ref) and isinstance(a.c.v, Ref) else a for a in args])
        ent = self._resolve_cache.get(callee)
        if ent is None:
            ent = self._resolve(callee)
            self._resolve_cache[callee] = ent
        kind, tgt = ent
        if kind == 'fn':
            cm = self.call_memo
            if cm and callee in cm:
                # harness-declared deterministic call (concrete arguments, result not mutated afterwards): computed once per worker
                return self.memo(('call', callee, cm[callee]), lambda: self.run(tgt, args, callee))
            return self.run(tgt, args, callee)
        if kind == 'model':
            self.stats.stubs[tgt.__mname__] = self.stats.stubs.get(tgt.__mname__, 0) + 1
            return tgt(self, callee, args)
        if kind == 'dyn':
            return self.call_dynamic(callee, tgt, args)
        raise Unsupported('no body/model for ' + callee)

    def _resolve(self, callee):
        import models
        pc = parse_callee(callee)
        # 1. crate function by static type
        f = self.lookup_static(pc)
        if f is not None:
            return ('fn', f)
        # 2. model
        mdl = models.lookup(callee, pc)
        if mdl is not None:
            return ('model', mdl)
        # 3. dynamic dispatch on the runtime type of the receiver
        if pc['trait'] is not None:
            return ('dyn', pc)
        return ('none', None)

    def lookup_static(self, pc):
        prog = self.prog
        if pc['kind'] == 'qualified':
            sh = head_name(pc['self']) if pc['self'] else None
            cands = prog.by_key.get((sh, pc['trait'], pc['method']))
            if cands:
                return self._pick(cands, pc)
            return None
        segs = pc['segs']
        if len(segs) >= 2:
            cands = prog.by_key.get((segs[-2], None, segs[-1]))
            if cands:
                return self._pick(cands, pc)
            # trait method called through the trait path on a crate type: Type::method with trait impl
            for (sh, th, m), fl in prog.by_key.items():
                if sh == segs[-2] and m == segs[-1]:
                    return self._pick(fl, pc)
        tail = '::'.join(segs)
        cands = prog.by_path.get(tail) or (prog.by_path.get(segs[-1]) if len(segs) == 1 or segs[-2] in ('utils', 'crate') or segs[-2].islower() else None)
        if cands:
            return cands[-1]
        return None

    def _pick(self, cands, pc):
        if len(cands) == 1:
            return cands[0]
        # several impl blocks for differently parameterised self types: match generic text
        want = pc.get('self_full') or ''
        for f in cands:
            stext = f.debug.get('__impl__', (None, None, '', None))[2] or ''
            if normalize_ty(stext) == normalize_ty(want):
                return f
        ttext = pc.get('trait_full') or ''
        for f in cands:
            t = f.debug.get('__impl__', (None, None, '', ''))[3] or ''
            if normalize_ty(t) == normalize_ty(ttext):
                return f
        return cands[-1]

    def call_dynamic(self, callee, pc, args):
        import models
        if args and isinstance(args[0], Opaque) and args[0].kind == 'box' and getattr(args[0], 'cell', None) is not None:
            args = [Ref(args[0].cell)] + list(args[1:])        # &*Box<dyn Trait>: dispatch on the boxed value
        rt = models.rt_type(args[0]) if args else None
        cands = self.prog.by_key.get((rt, pc['trait'], pc['method']))
        if cands:
            f = cands[-1]
            if len(cands) > 1:
                f = models.pick_by_runtime(self, cands, args)
            return self.run(f, args, callee)
        g = models.DYN.get((pc['trait'], pc['method']))
        if g is not None:
            self.stats.stubs[g.__mname__] = self.stats.stubs.get(g.__mname__, 0) + 1
            return g(self, callee, args)
        raise Unsupported('no body/model for %s (runtime receiver type %s)' % (callee, rt))

    def call_closure(self, clo, args):
        """clo: closure Agg (or FnItem); args: python list of values (untupled)"""
        if isinstance(clo, Ref):
            clo = clo.c.v
        if isinstance(clo, FnItem):
            return self.call(clo.path, args)
        if not (isinstance(clo, Agg) and clo.ty and clo.ty.startswith('{closure@')):
            raise Unsupported('call of non-closure %r' % (clo,))
        f = self.prog.closures.get(clo.ty[len('{closure@'):-1])
        if f is None:
            raise Unsupported('closure body not found: ' + clo.ty)
        self_arg = Ref(Cell(clo)) if f.argtys[0].startswith('&') else clo
        return self.run(f, [self_arg] + list(args), clo.ty)

    # ------------------------------------------------------------------ interpreter
    def run(self, f, args, callee=None, nosum=False):
        if len(self.callstack) > self.depth_limit:
            raise Unsupported('call depth limit')
        if not nosum and f.name in self.prog.summarizable and self.collect is None:
            if all(isinstance(x, Int) for x in args) and any(type(x.t) is not int for x in args):
                self.stats.fns[f.name + ' [summary]'] = self.stats.fns.get(f.name + ' [summary]', 0) + 1
                return self.apply_summary(f.name, [x.bits for x in args], lambda xs: self.run(f, xs, None, True), args)
        st = self.stats
        st.fns[f.name] = st.fns.get(f.name, 0) + 1
        loc = {}
        fa = f.args
        if len(args) != len(fa):
            raise Unsupported('arity mismatch calling %s: %d args for %d params' % (f.name, len(args), len(fa)))
        for a, v in zip(fa, args):
            loc[a] = Cell(v)
        loc['_0'] = Cell(None)
        blocks = f.parsed()
        sub = {}
        if callee is not None and f.debug.get('__impl__'):
            sub = impl_subst(f, callee, self.frame_subst[-1])
        self.callstack.append(f)
        self.frame_subst.append(sub)
        try:
            bb = 'bb0'
            while True:
                stmts = blocks[bb]
                st.steps += len(stmts)
                for s in stmts[:-1]:
                    k = s[0]
                    if k == 'assign':
                        v = self.rvalue(f, loc, s[2])
                        self.place_cell(f, loc, s[1]).v = v
                    elif k == 'nop':
                        pass
                    elif k == 'setdiscr':
                        self.set_discr(f, loc, s[1], s[2])
                    elif k == 'assume':
                        v = self.operand(f, loc, s[1])
                        if not self.truth(v):
                            raise Panic('UB: assume(false) reached in ' + f.name, 'ub')
                    else:
                        raise Unsupported('stmt ' + repr(s))
                term = stmts[-1]
                k = term[0]
                if k == 'goto':
                    bb = term[1]
                elif k == 'drop':
                    # drop glue matters only for the few stubbed std types whose Drop has an observable effect (BufWriter: flush, errors ignored)
                    if term[1] is not None:
                        try:
                            dv = self.place_cell(f, loc, term[1]).v
                        except (Unsupported, KeyError):
                            dv = None
                        hook = getattr(dv, 'on_drop', None) if isinstance(dv, Opaque) else None
                        if hook is not None:
                            hook(self, dv)
                    bb = term[2]
                elif k == 'call':
                    av = [self.operand(f, loc, a) for a in term[3]]
                    r = self.call(term[2], av)
                    if term[4] is None:
                        raise Panic('diverging call returned: ' + term[2])
                    self.place_cell(f, loc, term[1]).v = r
                    bb = term[4]
                elif k == 'switch':
                    bb = self.do_switch(f, loc, term)
                elif k == 'return':
                    return loc['_0'].v
                elif k == 'assert':
                    v = self.operand(f, loc, term[2])
                    okc = b_not(v) if term[1] else v
                    if not self.truth(okc):
                        raise Panic('MIR assert failed: %s in %s' % (term[3], f.name), 'assert')
                    bb = term[4]
                elif k == 'assign':
                    # block ending without terminator line (should not happen)
                    raise Unsupported('block without terminator in ' + f.name)
                elif k == 'unreachable':
                    raise Panic('UB: reached `unreachable` in ' + f.name, 'ub')
                elif k == 'callptr':
                    fv = self.operand(f, loc, term[2])
                    av = [self.operand(f, loc, a) for a in term[3]]
                    r = self.call_closure(fv, av)
                    self.place_cell(f, loc, term[1]).v = r
                    bb = term[4]
                elif k == 'resume':
                    raise Panic('resume/abort terminator reached in ' + f.name)
                else:
                    raise Unsupported('terminator ' + repr(term))
        except Panic as ex:
            if not hasattr(ex, 'stack'):
                ex.stack = [g.name for g in self.callstack[-4:]]
            raise
        finally:
            self.callstack.pop()
            self.frame_subst.pop()

    def do_switch(self, f, loc, term):
        v = self.operand(f, loc, term[1])
        arms = term[2]
        if isinstance(v, Int):
            t = v.t
            if type(t) is not int:
                c = v.conc()
                t = v.t
            if type(t) is int:
                other = None
                for key, dst in arms:
                    if key is None:
                        other = dst
                    elif (key & ((1 << v.bits) - 1)) == t:
                        return dst
                if other is None:
                    raise Panic('UB: switchInt without matching arm in ' + f.name, 'ub')
                return other
            if len(arms) == 2:
                r = self.try_merge(f, loc, term, v, None)
                if r is not None:
                    return r
            mask = (1 << v.bits) - 1
            if len(arms) > 8:
                # many-armed match (e.g. a character table): arm conditions are built on demand and kept per switched term
                ck = (t.get_id(), f.name, id(term))
                ent = self._switch_cache.get(ck)
                if ent is None:
                    ent = self._switch_cache[ck] = (t, LazyArms(t, v.bits, [None if key is None else key & mask for key, _ in arms]))
                    if len(self._switch_cache) > 4096:
                        self._switch_cache.clear()
                la = ent[1]
                return arms[self.branch(la, (t, la.keys))][1]
            conds = []; dsts = []; neg = []; keys = []
            for key, dst in arms:
                if key is None:
                    conds.append(z3.And([z3.Not(x) for x in neg]) if neg else True); dsts.append(dst); keys.append(None)
                else:
                    c1 = t == z3.BitVecVal(key, v.bits); neg.append(c1); conds.append(c1); dsts.append(dst); keys.append(key & mask)
            return dsts[self.branch(conds, (t, keys))]
        if is_bool(v):
            if not isinstance(v, bool) and len(arms) == 2:
                r = self.try_merge(f, loc, term, None, v)
                if r is not None:
                    return r
            tv = self.truth(v)
            want = 1 if tv else 0
            other = None
            for key, dst in arms:
                if key is None:
                    other = dst
                elif key == want:
                    return dst
            return other
        raise Unsupported('switchInt on %r in %s' % (v, f.name))

    # ---- if-conversion of small pure diamonds (keeps e.g. `if s > 0 {WB} else {NB}` as one ite term)
    _PURE_RV = ('use', 'variant', 'cast', 'un')
    _PURE_BIN = ('Eq', 'Ne', 'Lt', 'Le', 'Gt', 'Ge', 'BitAnd', 'BitOr', 'BitXor')

    def _pure_block(self, f, bb):
        key = (f.name, bb)
        r = self._pure_cache.get(key)
        if r is None:
            stmts = f.parsed()[bb]
            okp = len(stmts) <= 6 and stmts[-1][0] == 'goto'
            if okp:
                for s in stmts[:-1]:
                    if s[0] == 'nop':
                        continue
                    if s[0] != 'assign':
                        okp = False; break
                    rv = s[2]
                    if rv[0] in self._PURE_RV:
                        if rv[0] == 'variant' and rv[2]:
                            okp = False; break
                        if rv[0] == 'cast' and rv[3] != 'IntToInt':
                            okp = False; break
                        continue
                    if rv[0] == 'bin' and rv[1] in self._PURE_BIN:
                        continue
                    okp = False; break
            r = self._pure_cache[key] = (stmts[-1][1] if okp else False)
        return r

    def try_merge(self, f, loc, term, vint, vbool):
        arms = term[2]
        (k1, d1), (k2, d2) = arms
        if self.pos < len(self.decisions):
            pass
        j1 = self._pure_block(f, d1)
        j2 = self._pure_block(f, d2)
        join = None
        if j1 and j2 and j1 == j2:
            join = j1; blocks = (d1, d2)
        elif j1 and j1 == d2:
            join = d2; blocks = (d1, None)
        elif j2 and j2 == d1:
            join = d1; blocks = (None, d2)
        else:
            return None
        # condition for taking arm 1
        if vbool is not None:
            # arms keyed 0 / otherwise (or 1)
            c1 = vbool if (k1 == 1 or (k1 is None and k2 == 0)) else z3.Not(vbool)
        else:
            if k1 is None:
                c1 = vint.t != z3.BitVecVal(k2, vint.bits)
            else:
                c1 = vint.t == z3.BitVecVal(k1, vint.bits)
        writes = []
        for bb in blocks:
            log = {}
            order = []
            if bb is not None:
                for s in f.parsed()[bb][:-1]:
                    if s[0] != 'assign':
                        continue
                    try:
                        val = self.rvalue(f, loc, s[2])
                        cell = self.place_cell(f, loc, s[1])
                    except (Panic, Unsupported):
                        for cl, (old, new) in log.items():
                            cl.v = old
                        for w in writes:
                            for cl, (old, new) in w.items():
                                cl.v = old
                        return None
                    if cell not in log:
                        log[cell] = [cell.v, None]; order.append(cell)
                    cell.v = val
                    log[cell][1] = val
                for cl in order:
                    cl.v = log[cl][0]       # undo
            writes.append(log)
        w1, w2 = writes
        merged = {}
        for cl in set(w1) | set(w2):
            old = (w1.get(cl) or w2.get(cl))[0]
            a = w1[cl][1] if cl in w1 else old
            b = w2[cl][1] if cl in w2 else old
            m = self._ite(c1, a, b)
            if m is None:
                return None
            merged[cl] = m
        for cl, m in merged.items():
            cl.v = m
        self.stats.merged_diamonds = getattr(self.stats, 'merged_diamonds', 0) + 1
        return join

    @staticmethod
    def _ite(c, a, b):
        if a is b:
            return a
        if a is None:       # temporary only initialised on one arm: dead on the other
            return b
        if b is None:
            return a
        if isinstance(a, Int) and isinstance(b, Int) and a.bits == b.bits:
            if type(a.t) is int and type(b.t) is int and a.t == b.t:
                return a
            ra = a.interval(); rb = b.interval()
            rng = (min(ra[0], rb[0]), max(ra[1], rb[1])) if ra is not None and rb is not None else None
            return Int(z3.If(c, a.z(), b.z()), a.bits, a.sg, None, rng)
        # boolean flags are not merged: a later branch on the merged flag forks anyway, and merging only
        # postpones (and can multiply) that fork
        return None

    def set_discr(self, f, loc, place, idx):
        raise Unsupported('SetDiscriminant')

    # ---- places
    def place_cell(self, f, loc, p):
        k = p[0]
        if k == 'local':
            c = loc.get(p[1])
            if c is None:
                c = loc[p[1]] = Cell(None)
            return c
        if k == 'field':
            base = self.place_cell(f, loc, p[1])
            v = base.v
            if v is None:
                v = base.v = Agg([None] * (p[2] + 1))
            if isinstance(v, (Agg, Enum)):
                fl = v.f
                while len(fl) <= p[2]:
                    fl.append(Cell(None))
                return fl[p[2]]
            import models
            c = models.field_of_opaque(self, v, p[2])
            if c is not None:
                return c
            raise Unsupported('field %d of %r in %s' % (p[2], v, f.name))
        if k == 'deref':
            r = self.place_cell(f, loc, p[1]).v
            if isinstance(r, Ref):
                return r.c
            if isinstance(r, (SliceRef, StrRef)):
                return Cell(r)          # unsized place: keep the fat reference
            if isinstance(r, Opaque):
                return Cell(r)
            raise Unsupported('deref of %r in %s' % (r, f.name))
        if k == 'downcast':
            c = self.place_cell(f, loc, p[1])
            v = c.v
            if isinstance(v, Enum) and v.var != p[2] and not p[2].isdigit():
                raise Panic('UB: downcast to %s of %r in %s' % (p[2], v, f.name), 'ub')
            return c
        if k == 'index':
            base = self.place_cell(f, loc, p[1]).v
            idx = self.concretize(loc[p[2]].v, 4096)
            cells = self.seq_cells(base)
            if idx >= len(cells):
                raise Panic('index out of bounds (MIR index) in ' + f.name)
            return cells[idx]
        if k == 'cindex':
            base = self.place_cell(f, loc, p[1]).v
            cells = self.seq_cells(base)
            i = len(cells) - p[2] if p[3] else p[2]
            if i < 0 or i >= len(cells):
                raise Panic('constant index out of bounds in ' + f.name)
            return cells[i]
        if k == 'subslice':
            base = self.place_cell(f, loc, p[1]).v
            if isinstance(base, SliceRef):
                hi = (base.hi - p[3]) if p[4] else (base.lo + p[3])
                return Cell(SliceRef(base.s, base.lo + p[2], hi))
            raise Unsupported('subslice of %r' % (base,))
        raise Unsupported('place ' + repr(p))

    @staticmethod
    def seq_cells(base):
        if isinstance(base, SliceRef):
            return base.s.e[base.lo:base.hi]
        if isinstance(base, Seq):
            return base.e
        if isinstance(base, Ref) and isinstance(base.c.v, Seq):
            return base.c.v.e
        if isinstance(base, Opaque) and base.kind == 'strbytes':
            return [Cell(b) for b in base.s.b[base.lo:base.hi]]       # str::as_bytes(): read-only view
        raise Unsupported('indexing into %r' % (base,))

    # ---- operands
    def operand(self, f, loc, op):
        k = op[0]
        if k == 'move':
            p = op[1]
            if p[0] == 'local':
                c = loc.get(p[1])
                return c.v if c is not None else None
            return self.place_cell(f, loc, p).v
        if k == 'copy':
            p = op[1]
            if p[0] == 'local':
                c = loc.get(p[1])
                v = c.v if c is not None else None
            else:
                v = self.place_cell(f, loc, p).v
            if isinstance(v, (Agg, Enum)) or (isinstance(v, Seq) and v.arr):
                return copy_val(v)
            return v
        if k == 'const':
            return self.const(f, op[1])
        if k == 'fnitem':
            return FnItem(op[1])
        raise Unsupported('operand ' + repr(op))

    _INTLIT = re.compile(r'(-?\d+)_(u8|u16|u32|u64|u128|usize|i8|i16|i32|i64|i128|isize)$')
    _FLOATLIT = re.compile(r'(-?[\d.]+(?:[eE][-+]?\d+)?|[-+]?inf|NaN)(?:_)?(f64|f32)$')

    def const(self, f, c):
        r = self._const_cache.get(c)
        if r is not None:
            return r
        r = self._const(f, c)
        if isinstance(r, (Int, bool, Float)) and 'promoted' not in c:
            self._const_cache[c] = r
        return r

    def _const(self, f, c):
        c = c.strip()
        if c == 'true':
            return True
        if c == 'false':
            return False
        if c == '()':
            return UNIT
        m = self._INTLIT.match(c)
        if m:
            bits, sg = int_ty(m.group(2))
            return Int(int(m.group(1)), bits, sg)
        ch = c[0]
        if ch == "'":
            return Int(ord(unescape_rust(c[1:-1])), 32)
        if ch == '"':
            return mk_strref(unescape_rust(c[1:-1]))
        if c.startswith('b"'):
            bs = unescape_rust_bytes(c[2:-1])
            s = mk_bytes_seq(bs, arr=True)
            return Ref(Cell(s))
        m = self._FLOATLIT.match(c)
        if m:
            x = float(m.group(1))
            if m.group(2) == 'f32':
                import struct
                x = struct.unpack('<f', struct.pack('<f', x))[0]
            return Float(x)
        if c.startswith('ZeroSized: '):
            ty = c[len('ZeroSized: '):]
            if ty.startswith('{closure@'):
                return Agg([], ty=ty)
            m2 = re.match(r'.*\{(.*)\}$', ty)
            if ty.startswith('fn(') or ty.startswith('for<') or ty.startswith('unsafe fn(') or ty.startswith('extern'):
                if m2:
                    return FnItem(m2.group(1))
            return Agg([], ty=head_name(ty))
        m = re.match(r'([A-Za-z_][\w:]*)(?:::<.*>)? \{\{.*\}\}$', c)
        if m:
            return Agg([], ty=m.group(1).split('::')[-1])      # constant struct of zero-sized markers (e.g. bincode Configuration)
        m = re.search(r'::(promoted\[\d+\])$', c)
        if m:
            key = f.name + '::' + m.group(1)
            cf = self.prog.consts.get(key)
            if cf is None:
                raise Unsupported('promoted ' + c)
            return self.run(cf, [])
        # named constant / unit variant / unit struct
        path = strip_generics(c)
        segs0 = path.split('::')
        cv = self.prog.consts.get(path)
        k0 = 0
        while cv is None and k0 < len(segs0):
            cv = self.prog.consts_by_tail.get('::'.join(segs0[k0:]))
            k0 += 1
        if cv is not None:
            if isinstance(cv, P.Fn):
                return self.run(cv, [])
            return self.const(f, cv[6:] if cv.startswith('const ') else cv)
        segs = path.split('::')
        if len(segs) >= 2:
            r = self.unit_variant(segs[-2], segs[-1])
            if r is not None:
                return r
        import models
        r = models.named_const(self, c, path)
        if r is not None:
            return r
        if re.fullmatch(r'[A-Z][A-Za-z0-9]*', segs[-1]) and not segs[-1].isupper():
            return Agg([], ty=segs[-1])        # unit struct value (e.g. `SplitLinebreaksFilter`)
        raise Unsupported('const ' + c)

    def unit_variant(self, ty, var):
        info = self.prog.src.enum_info.get(ty)
        if info is not None:
            if info['clike']:
                if var in info['values']:
                    return Int(info['values'][var], info['bits'], info['signed'])
                return None
            if var in info['values']:
                return Enum(var, [], ty)
            return None
        if ty in STD_ENUMS and var in STD_ENUMS[ty]:
            return Enum(var, [], ty)
        return None

    # ---- rvalues
    def rvalue(self, f, loc, rv):
        k = rv[0]
        if k == 'use':
            return self.operand(f, loc, rv[1])
        if k == 'ref':
            p = rv[1]
            if p[0] == 'deref':
                c = self.place_cell(f, loc, p)
                v = c.v
                if isinstance(v, (SliceRef, StrRef)) or (isinstance(v, Opaque) and not isinstance(self.place_cell(f, loc, p[1]).v, Ref)):
                    return v
                return Ref(c)
            c = self.place_cell(f, loc, p)
            if p[0] in ('subslice',):
                return c.v
            return Ref(c)
        if k == 'discr':
            v = self.place_cell(f, loc, rv[1]).v
            if isinstance(v, Enum):
                return Int(self.prog.enum_index(v.ty or STD_VARIANT_OWNER.get(v.var), v.var), 64, True)
            if isinstance(v, Int):
                # field-less enum stored as its discriminant: the discriminant has the enum's repr type
                return Int(v.t, v.bits, v.sg)
            import models
            r = models.discr_of_opaque(self, v)
            if r is not None:
                return r
            raise Unsupported('discriminant of %r in %s' % (v, f.name))
        if k == 'bin':
            return self.binop(rv[1], self.operand(f, loc, rv[2]), self.operand(f, loc, rv[3]))
        if k == 'un':
            a = self.operand(f, loc, rv[2])
            op = rv[1]
            if op == 'Not':
                if is_bool(a):
                    return b_not(a)
                return Int(~a.t, a.bits, a.sg)
            if op == 'Neg':
                if isinstance(a, Float):
                    return Float(-a.t if a.is_conc() else z3.fpNeg(a.t))
                return Int(-a.t, a.bits, a.sg)
            if op == 'PtrMetadata':
                if isinstance(a, (SliceRef, StrRef)):
                    return Int(a.hi - a.lo, 64)
                if isinstance(a, Ref) and isinstance(a.c.v, Seq):
                    return Int(len(a.c.v.e), 64)
                if isinstance(a, Opaque) and a.kind == 'strbytes':
                    return Int(a.hi - a.lo, 64)
            raise Unsupported('unop %s on %r' % (op, a))
        if k == 'cast':
            return self.cast(self.operand(f, loc, rv[1]), rv[2], rv[3], rv[4], f)
        if k == 'tuple':
            return Agg([self.operand(f, loc, o) for o in rv[1]])
        if k == 'array':
            return Seq([self.operand(f, loc, o) for o in rv[1]], arr=True)
        if k == 'repeat':
            v = self.operand(f, loc, rv[1])
            cnt = rv[2]
            if cnt.startswith('const '):
                cnt = cnt[6:]
            m = re.match(r'(\d+)', cnt)
            if m:
                n = int(m.group(1))
            else:
                cv = self.const(f, cnt)
                n = cv.conc()
            return Seq([copy_val(v) for _ in range(n)], arr=True)
        if k == 'struct':
            path = strip_generics(rv[1])
            segs = path.split('::')
            vals = [self.operand(f, loc, o) for o in rv[3]]
            head = segs[-1]
            if len(segs) >= 2 and self.is_variant(segs[-2], head):
                e = Enum(head, vals, segs[-2])
                return e
            names = self.prog.struct_names.get(head)
            if names is None:
                names = self.prog.struct_names[head] = list(rv[2])
            return Agg(vals, ty=head, names=names)
        if k == 'variant':
            path = strip_generics(rv[1])
            segs = path.split('::')
            head = segs[-1]
            vals = [self.operand(f, loc, o) for o in rv[2]]
            if len(segs) >= 2:
                if not vals:
                    r = self.unit_variant(segs[-2], head)
                    if r is not None:
                        return r
                if self.is_variant(segs[-2], head):
                    return Enum(head, vals, segs[-2])
            if len(segs) == 1:
                # variant of an enum of another crate is printed without its path
                owners = [en for en, info in self.prog.src.enum_info.items() if head in info['values']]
                if len(owners) == 1:
                    if not vals:
                        r = self.unit_variant(owners[0], head)
                        if r is not None:
                            return r
                    return Enum(head, vals, owners[0])
                if head in STD_VARIANT_OWNER and not (head in self.prog.src.structs):
                    return Enum(head, vals, STD_VARIANT_OWNER[head])
            return Agg(vals, ty=head)       # tuple struct / unit struct
        if k == 'closure':
            return Agg([self.operand(f, loc, o) for o in rv[2]], ty='{closure@%s}' % rv[1])
        if k == 'nullop':
            if rv[1] in ('UbChecks', 'ContractChecks'):
                return True
            if rv[1] == 'OverflowChecks':
                return True
        raise Unsupported('rvalue ' + repr(rv))

    def is_variant(self, ty, var):
        vs = STD_ENUMS.get(ty)
        if vs is not None:
            return var in vs
        info = self.prog.src.enum_info.get(ty)
        return info is not None and var in info['values']

    def cast(self, a, ty, kind, detail, f):
        if kind == 'IntToInt':
            bits, sg = int_ty(ty)
            if is_bool(a):
                if isinstance(a, bool):
                    return Int(1 if a else 0, bits, sg)
                return Int(z3.If(a, z3.BitVecVal(1, bits), z3.BitVecVal(0, bits)), bits, sg)
            if isinstance(a, Enum):
                return Int(self.prog.enum_index(a.ty, a.var), bits, sg)
            t = a.t
            if type(t) is int:
                return Int(to_signed(t, a.bits) if a.sg else t, bits, sg)
            rng = a.rng
            if rng is not None:
                tlo, thi = (-(1 << (bits - 1)), (1 << (bits - 1)) - 1) if sg else (0, (1 << bits) - 1)
                if not (tlo <= rng[0] and rng[1] <= thi):
                    rng = None
            if bits == a.bits:
                return Int(t, bits, sg, None, rng)
            if bits < a.bits:
                return Int(z3.Extract(bits - 1, 0, t), bits, sg, None, rng)
            return Int(z3.SignExt(bits - a.bits, t) if a.sg else z3.ZeroExt(bits - a.bits, t), bits, sg, None, rng)
        if kind in ('PointerCoercion', 'PtrToPtr', 'Transmute', 'PointerExposeProvenance', 'PointerWithExposedProvenance'):
            if kind == 'Transmute' and isinstance(a, Ref) and int_ty(ty):
                return Int(0x10000, 64)         # address of a live allocation: non-null and aligned (allocation never fails, DESIGN.md 2.1)
            if kind == 'Transmute' and isinstance(a, (Int, Float)):
                it = int_ty(ty)
                if isinstance(a, Int) and it and it[0] == a.bits:
                    return Int(a.t, it[0], it[1])
                raise Unsupported('transmute %r to %s' % (a, ty))
            if 'Unsize' in detail:
                if isinstance(a, Ref) and isinstance(a.c.v, Seq):
                    return SliceRef(a.c.v, 0, len(a.c.v.e))
                return a
            if 'ReifyFnPointer' in detail or 'ClosureFnPointer' in detail:
                return a
            return a
        if kind == 'IntToFloat':
            c = a.conc()
            if c is not None:
                return Float(float(c))
            return Float(z3.fpSignedToFP(z3.RNE(), a.t, z3.Float64()) if a.sg else z3.fpUnsignedToFP(z3.RNE(), a.t, z3.Float64()), src=a)
        if kind == 'FloatToInt':
            bits, sg = int_ty(ty)
            if a.is_conc():
                import math
                x = a.t
                if math.isnan(x):
                    return Int(0, bits, sg)
                lo, hi = (-(1 << (bits - 1)), (1 << (bits - 1)) - 1) if sg else (0, (1 << bits) - 1)
                if x == float('inf') or x > hi:
                    return Int(hi, bits, sg)
                if x == float('-inf') or x < lo:
                    return Int(lo, bits, sg)
                return Int(int(x), bits, sg)
            raise Unsupported('symbolic saturating float->int cast')
        if kind == 'FloatToFloat':
            return a
        raise Unsupported('cast %s (%s) in %s' % (kind, ty, f.name))

    def binop(self, op, a, b):
        if isinstance(a, Float) or isinstance(b, Float):
            return self.float_binop(op, a, b)
        if is_bool(a) or is_bool(b):
            ca = isinstance(a, bool); cb = isinstance(b, bool)
            if op == 'Eq':
                return (a == b) if ca and cb else (b_z(a) == b_z(b))
            if op == 'Ne':
                return (a != b) if ca and cb else (b_z(a) != b_z(b))
            if op == 'BitAnd':
                return b_and(a, b)
            if op == 'BitOr':
                return b_or(a, b)
            if op == 'BitXor':
                return (a != b) if ca and cb else z3.Xor(b_z(a), b_z(b))
            if op in ('Lt', 'Le', 'Gt', 'Ge'):
                ia = Int(1 if a else 0, 1) if ca else Int(z3.If(a, z3.BitVecVal(1, 1), z3.BitVecVal(0, 1)), 1)
                ib = Int(1 if b else 0, 1) if cb else Int(z3.If(b, z3.BitVecVal(1, 1), z3.BitVecVal(0, 1)), 1)
                return self.binop(op, ia, ib)
            raise Unsupported('bool binop ' + op)
        if not isinstance(a, Int) or not isinstance(b, Int):
            if op in ('Eq', 'Ne') and isinstance(a, Ref) and isinstance(b, Ref):
                r = a.c is b.c
                return r if op == 'Eq' else not r
            raise Unsupported('binop %s on %r, %r' % (op, a, b))
        x, y = a.t, b.t; n = a.bits; sg = a.sg
        if type(x) is int and type(y) is int:
            return self.binop_conc(op, x, y, n, sg, b.bits)
        xz = a.z(); yz = b.z()
        # interval reasoning: discharge overflow checks of sums of bounded terms without the solver
        if op in ('Add', 'Sub', 'AddWithOverflow', 'SubWithOverflow', 'AddUnchecked', 'SubUnchecked'):
            ra = a.interval(); rb = b.interval()
            if ra is not None and rb is not None:
                if op.startswith('Add'):
                    lo, hi = ra[0] + rb[0], ra[1] + rb[1]
                else:
                    lo, hi = ra[0] - rb[1], ra[1] - rb[0]
                tlo, thi = (-(1 << (n - 1)), (1 << (n - 1)) - 1) if sg else (0, (1 << n) - 1)
                if tlo <= lo and hi <= thi:
                    res = Int((xz + yz) if op.startswith('Add') else (xz - yz), n, sg, None, (lo, hi))
                    if op.endswith('WithOverflow'):
                        return Agg([res, False])
                    return res
        if op in ('Shl', 'Shr', 'ShlUnchecked', 'ShrUnchecked') and b.bits != n:
            yz = z3.ZeroExt(n - b.bits, yz) if b.bits < n else z3.Extract(n - 1, 0, yz)
        if op in ('Add', 'AddUnchecked'):
            return Int(xz + yz, n, sg)
        if op in ('Sub', 'SubUnchecked'):
            return Int(xz - yz, n, sg)
        if op in ('Mul', 'MulUnchecked'):
            return Int(xz * yz, n, sg)
        if op == 'BitAnd':
            return Int(xz & yz, n, sg)
        if op == 'BitOr':
            return Int(xz | yz, n, sg)
        if op == 'BitXor':
            return Int(xz ^ yz, n, sg)
        if op in ('Shl', 'ShlUnchecked'):
            return Int(xz << yz, n, sg)
        if op in ('Shr', 'ShrUnchecked'):
            return Int((xz >> yz) if sg else z3.LShR(xz, yz), n, sg)
        if op == 'Div':
            return Int((xz / yz) if sg else z3.UDiv(xz, yz), n, sg)
        if op == 'Rem':
            return Int(z3.SRem(xz, yz) if sg else z3.URem(xz, yz), n, sg)
        if op == 'Eq':
            return xz == yz
        if op == 'Ne':
            return xz != yz
        if op == 'Lt':
            return (xz < yz) if sg else z3.ULT(xz, yz)
        if op == 'Le':
            return (xz <= yz) if sg else z3.ULE(xz, yz)
        if op == 'Gt':
            return (xz > yz) if sg else z3.UGT(xz, yz)
        if op == 'Ge':
            return (xz >= yz) if sg else z3.UGE(xz, yz)
        if op.endswith('WithOverflow'):
            base = op[:3]
            w = n + 1 if base != 'Mul' else 2 * n
            ex = (lambda t: z3.SignExt(w - n, t)) if sg else (lambda t: z3.ZeroExt(w - n, t))
            full = {'Add': ex(xz) + ex(yz), 'Sub': ex(xz) - ex(yz), 'Mul': ex(xz) * ex(yz)}[base]
            res = z3.Extract(n - 1, 0, full)
            ov = ex(res) != full
            return Agg([Int(res, n, sg), ov])
        if op == 'Cmp':
            lt = (xz < yz) if sg else z3.ULT(xz, yz)
            return Int(z3.If(lt, z3.BitVecVal(0xff, 8), z3.If(xz == yz, z3.BitVecVal(0, 8), z3.BitVecVal(1, 8))), 8, True)
        raise Unsupported('binop ' + op)

    @staticmethod
    def binop_conc(op, x, y, n, sg, ybits):
        M = (1 << n) - 1
        if sg:
            sx = to_signed(x, n); sy = to_signed(y, ybits if op.startswith('Sh') else n)
        else:
            sx, sy = x, y
        if op in ('Add', 'AddUnchecked'):
            return Int(x + y, n, sg)
        if op in ('Sub', 'SubUnchecked'):
            return Int(x - y, n, sg)
        if op in ('Mul', 'MulUnchecked'):
            return Int(sx * sy, n, sg)
        if op == 'BitAnd':
            return Int(x & y, n, sg)
        if op == 'BitOr':
            return Int(x | y, n, sg)
        if op == 'BitXor':
            return Int(x ^ y, n, sg)
        if op in ('Shl', 'ShlUnchecked'):
            return Int(x << (y % n), n, sg)
        if op in ('Shr', 'ShrUnchecked'):
            return Int(sx >> (y % n), n, sg)
        if op == 'Div':
            if y == 0:
                raise Panic('division by zero (unchecked Div)')
            q = abs(sx) // abs(sy)
            return Int(q if (sx < 0) == (sy < 0) else -q, n, sg)
        if op == 'Rem':
            if y == 0:
                raise Panic('remainder by zero (unchecked Rem)')
            r = abs(sx) % abs(sy)
            return Int(r if sx >= 0 else -r, n, sg)
        if op == 'Eq':
            return x == y
        if op == 'Ne':
            return x != y
        if op == 'Lt':
            return sx < sy
        if op == 'Le':
            return sx <= sy
        if op == 'Gt':
            return sx > sy
        if op == 'Ge':
            return sx >= sy
        if op.endswith('WithOverflow'):
            base = op[:3]
            full = {'Add': sx + sy, 'Sub': sx - sy, 'Mul': sx * sy}[base]
            lo, hi = (-(1 << (n - 1)), (1 << (n - 1)) - 1) if sg else (0, M)
            return Agg([Int(full, n, sg), not (lo <= full <= hi)])
        if op == 'Cmp':
            return Int(-1 if sx < sy else (0 if sx == sy else 1), 8, True)
        raise Unsupported('binop ' + op)

    def float_binop(self, op, a, b):
        if a.is_conc() and b.is_conc():
            x, y = a.t, b.t
            if op == 'Add':
                return Float(x + y)
            if op == 'Sub':
                return Float(x - y)
            if op == 'Mul':
                return Float(x * y)
            if op == 'Div':
                try:
                    return Float(x / y)
                except ZeroDivisionError:
                    import math
                    if x == 0 or math.isnan(x):
                        return Float(float('nan'))
                    return Float(math.copysign(float('inf'), x) * math.copysign(1.0, y))
            if op == 'Eq':
                return x == y
            if op == 'Ne':
                return x != y
            if op == 'Lt':
                return x < y
            if op == 'Le':
                return x <= y
            if op == 'Gt':
                return x > y
            if op == 'Ge':
                return x >= y
            raise Unsupported('float binop ' + op)
        x, y = a.z(), b.z()
        rm = z3.RNE()
        if op == 'Add':
            return Float(z3.fpAdd(rm, x, y))
        if op == 'Sub':
            return Float(z3.fpSub(rm, x, y))
        if op == 'Mul':
            return Float(z3.fpMul(rm, x, y))
        if op == 'Div':
            return Float(z3.fpDiv(rm, x, y))
        if op == 'Eq':
            return z3.fpEQ(x, y)
        if op == 'Ne':
            return z3.Not(z3.fpEQ(x, y))
        if op == 'Lt':
            return z3.fpLT(x, y)
        if op == 'Le':
            return z3.fpLEQ(x, y)
        if op == 'Gt':
            return z3.fpGT(x, y)
        if op == 'Ge':
            return z3.fpGEQ(x, y)
        raise Unsupported('float binop ' + op)


# --------------------------------------------------------------------------------------------
def unescape_rust(body):
    out = []
    i = 0; n = len(body)
    while i < n:
        c = body[i]
        if c != '\\':
            out.append(c); i += 1; continue
        i += 1
        e = body[i]
        if e == 'n':
            out.append('\n')
        elif e == 'r':
            out.append('\r')
        elif e == 't':
            out.append('\t')
        elif e == '0':
            out.append('\0')
        elif e == 'u':
            j = body.index('}', i)
            out.append(chr(int(body[i + 2:j], 16))); i = j
        elif e == 'x':
            out.append(chr(int(body[i + 1:i + 3], 16))); i += 2
        else:
            out.append(e)
        i += 1
    return ''.join(out)


def unescape_rust_bytes(body):
    out = bytearray()
    i = 0; n = len(body)
    while i < n:
        c = body[i]
        if c != '\\':
            out += c.encode('utf-8'); i += 1; continue
        i += 1
        e = body[i]
        if e == 'n':
            out.append(10)
        elif e == 'r':
            out.append(13)
        elif e == 't':
            out.append(9)
        elif e == '0':
            out.append(0)
        elif e == 'x':
            out.append(int(body[i + 1:i + 3], 16)); i += 2
        else:
            out += e.encode('utf-8')
        i += 1
    return bytes(out)


def _close_angle(s, i):
    depth = 0
    k = i
    while k < len(s):
        c = s[k]
        if c == '<':
            depth += 1
        elif c == '>' and s[k - 1] not in '-=':
            depth -= 1
            if depth == 0:
                return k
        k += 1
    return -1


def parse_callee(callee):
    """-> dict(kind='qualified'|'path', self, self_full, trait, trait_full, method, segs, raw)"""
    c = callee.strip()
    if c.startswith('<'):
        e = _close_angle(c, 0)
        inner = c[1:e]
        rest = c[e + 1:]
        # split inner on top-level ' as '
        depth = 0; pos = -1; k = 0
        while k < len(inner):
            ch = inner[k]
            if ch in '<([':
                depth += 1
            elif ch in ')]' or (ch == '>' and inner[k - 1] not in '-='):
                depth -= 1
            elif depth == 0 and inner.startswith(' as ', k):
                pos = k; break
            k += 1
        if pos >= 0:
            sty = inner[:pos]; tr = inner[pos + 4:]
        else:
            sty = inner; tr = None
        method = strip_generics(rest).lstrip(':')
        return {'kind': 'qualified', 'self': sty, 'self_full': sty, 'trait': head_name(tr) if tr else None,
                'trait_full': tr, 'method': method.split('::')[-1] if method else '', 'segs': [method], 'raw': callee,
                'tail': rest}
    stripped = strip_generics(c)
    segs = stripped.split('::')
    # generic args of the type segment (for impl disambiguation): text before the last '::method'
    m = re.match(r'(.*)::[A-Za-z_0-9]+(?:::<.*>)?$', c)
    self_full = m.group(1) if m else None
    if self_full:
        self_full = self_full.replace('::<', '<')
    return {'kind': 'path', 'self': segs[-2] if len(segs) >= 2 else None, 'self_full': self_full, 'trait': None,
            'trait_full': None, 'method': segs[-1], 'segs': segs, 'raw': callee}


def normalize_ty(t):
    t = re.sub(r"'\w+,?\s*", '', t or '')
    t = t.replace('std::', '').replace('alloc::', '').replace('core::', '')
    t = re.sub(r'\b(?:\w+::)+(\w+)', r'\1', t)
    t = t.replace('<>', '').replace('::<', '<')
    return re.sub(r'\s+', '', t)


_WORD = re.compile(r'\b[A-Z][A-Za-z0-9_]*\b')


def apply_subst(callee, sub):
    def rep(m):
        return sub.get(m.group(0), m.group(0))
    return _WORD.sub(rep, callee)


_impl_subst_cache = {}


def impl_subst(f, callee, outer):
    key = (f.name, callee)
    r = _impl_subst_cache.get(key)
    if r is None:
        r = _impl_subst_cache[key] = _impl_subst(f, callee, outer)
    return r


def _impl_subst(f, callee, outer):
    """bind impl-level type parameters by unifying the impl's self type text with the callee's"""
    info = f.debug.get('__impl__')
    stext = info[2] or ''
    if '<' not in stext:
        return {}
    pc = parse_callee(callee)
    want = pc.get('self_full') or ''
    sub = {}
    _unify(normalize_ty(stext), normalize_ty(want), sub)
    return sub


def _unify(pat, ty, sub):
    """very small structural unifier on normalised type text: Head<A,B> vs Head<X,Y>"""
    if not pat or not ty:
        return
    if re.fullmatch(r'[A-Z]\w*', pat) and pat != ty and '<' not in pat:
        # single identifier: a type parameter if it is short and upper-case (T, W, K, V, S, R ...)
        if len(pat) <= 2:
            sub[pat] = ty
        return
    mp = re.match(r'([\w&\[\]]+)<(.*)>$', pat); mt = re.match(r'([\w&\[\]]+)<(.*)>$', ty)
    if mp and mt and mp.group(1) == mt.group(1):
        ps = split_top(mp.group(2)); ts = split_top(mt.group(2))
        if len(ps) >= len(ts):
            for a, b in zip(ps, ts):
                _unify(a, b, sub)
            for a in ps[len(ts):]:
                # defaulted type parameter that the callee text does not spell out (hashbrown's `S = DefaultHashBuilder`)
                if a == 'S':
                    sub[a] = 'DefaultHashBuilder'
