"""Produce the MIR text of a crate of /repo's *current working tree*.

The tree is copied to a scratch directory outside /repo and /verif, `cargo +nightly rustc --
-Zunpretty=mir` is run there, and the copy is removed.  A content hash of every source file of the
workspace (plus the flags) keys a small cache under /var/tmp, so any edit of /repo invalidates it.
"""
import hashlib
import os
import shutil
import subprocess
import sys
import tempfile
import time

REPO = os.environ.get('VERIF_REPO', '/repo')
CACHE = os.environ.get('VERIF_CACHE', '/var/tmp/vpverif-cache')
TARGET = os.environ.get('VERIF_TARGET', '/var/tmp/vpverif-target')

DEFAULT_FEATURES = {
    'vaporetto': ['std', 'alloc', 'cache-type-score', 'fix-weight-length', 'tag-prediction', 'charwise-pma'],
}
IMPLIED = {
    'std': ['alloc'], 'cache-type-score': ['alloc'], 'fix-weight-length': ['alloc'], 'tag-prediction': ['alloc'],
    'charwise-pma': ['alloc'], 'kytea': ['std'], 'train': ['std'], 'portable-simd': ['fix-weight-length'],
}


def tree_hash(repo=REPO):
    h = hashlib.sha256()
    for root, dirs, files in os.walk(repo):
        dirs[:] = sorted(d for d in dirs if d not in ('target', '.git', 'figures', 'resources'))
        for fn in sorted(files):
            if fn.endswith('.rs') or fn in ('Cargo.toml', 'Cargo.lock', 'build.rs'):
                p = os.path.join(root, fn)
                h.update(os.path.relpath(p, repo).encode())
                with open(p, 'rb') as f:
                    h.update(hashlib.sha256(f.read()).digest())
    return h.hexdigest()


def feature_closure(crate, features, no_default):
    fs = set()
    if not no_default:
        fs.update(DEFAULT_FEATURES.get(crate, []))
    fs.update(features or [])
    changed = True
    while changed:
        changed = False
        for f in list(fs):
            for g in IMPLIED.get(f, []):
                if g not in fs:
                    fs.add(g); changed = True
    return fs


def dump(crate='vaporetto', features=None, no_default=False, target='lib', bin_name=None, repo=REPO, debug_assertions=True, verbose=False):
    """-> dict(mir=text, src_root=path of the source copy the dump was made from, features=set, hash, secs, cached)"""
    feats = sorted(features or [])
    th = tree_hash(repo)
    key = hashlib.sha256(('%s|%s|%s|%s|%s|%s|%s' % (th, crate, ','.join(feats), no_default, target, bin_name, debug_assertions)).encode()).hexdigest()[:24]
    cdir = os.path.join(CACHE, key)
    t0 = time.time()
    if os.path.exists(os.path.join(cdir, 'mir.txt')) and os.path.exists(os.path.join(cdir, 'ok')):
        os.utime(cdir, None)
        return {'mir': open(os.path.join(cdir, 'mir.txt')).read(), 'src_root': os.path.join(cdir, 'src'),
                'features': feature_closure(crate, feats, no_default), 'hash': th, 'secs': time.time() - t0, 'cached': True, 'key': key}
    os.makedirs(CACHE, exist_ok=True)
    scratch = tempfile.mkdtemp(prefix='vpverif.', dir='/var/tmp')
    try:
        src = os.path.join(scratch, 'src')
        subprocess.check_call(['rsync', '-a', '--exclude', 'target', '--exclude', '.git', '--exclude', 'figures', repo + '/', src + '/'])
        cmd = ['cargo', '+nightly', 'rustc', '--offline', '-p', crate]
        if target == 'lib':
            cmd.append('--lib')
        else:
            cmd += ['--bin', bin_name]
        if no_default:
            cmd.append('--no-default-features')
        if feats:
            cmd += ['--features', ','.join(feats)]
        cmd += ['--', '-Zunpretty=mir', '-C', 'debug-assertions=' + ('on' if debug_assertions else 'off'), '-C', 'overflow-checks=on']
        env = dict(os.environ)
        env['CARGO_TARGET_DIR'] = TARGET
        env['CARGO_NET_OFFLINE'] = 'true'
        env.pop('RUSTFLAGS', None)
        p = subprocess.run(cmd, cwd=src, env=env, stdout=subprocess.PIPE, stderr=subprocess.PIPE)
        if p.returncode != 0 or not p.stdout.strip():
            # cargo prints nothing when it considers the crate fresh: force a rebuild by touching the root
            sys.stderr.write(p.stderr.decode()[-3000:])
            raise RuntimeError('MIR dump failed for %s (%s)' % (crate, ' '.join(cmd)))
        mir = p.stdout.decode()
        tmpc = cdir + '.tmp%d' % os.getpid()
        shutil.rmtree(tmpc, ignore_errors=True)
        os.makedirs(tmpc)
        with open(os.path.join(tmpc, 'mir.txt'), 'w') as f:
            f.write(mir)
        # keep only the sources (for impl-span / enum lookups)
        subprocess.check_call(['rsync', '-a', '--include', '*/', '--include', '*.rs', '--include', 'Cargo.toml', '--exclude', '*', src + '/', os.path.join(tmpc, 'src') + '/'])
        open(os.path.join(tmpc, 'ok'), 'w').write(th)
        shutil.rmtree(cdir, ignore_errors=True)
        os.rename(tmpc, cdir)
        _evict()
        return {'mir': mir, 'src_root': os.path.join(cdir, 'src'), 'features': feature_closure(crate, feats, no_default),
                'hash': th, 'secs': time.time() - t0, 'cached': False, 'key': key}
    finally:
        shutil.rmtree(scratch, ignore_errors=True)


def _evict(keep=60):
    try:
        ents = [(os.path.getmtime(os.path.join(CACHE, d)), d) for d in os.listdir(CACHE)]
    except OSError:
        return
    ents.sort(reverse=True)
    for _, d in ents[keep:]:
        shutil.rmtree(os.path.join(CACHE, d), ignore_errors=True)


def load_program(crate='vaporetto', features=None, no_default=False, target='lib', bin_name=None, extra=()):
    """dump + parse + index -> (Program, info dict).  extra: further crates (dicts of dump() kwargs) whose MIR is
    merged into the same program (e.g. vaporetto_rules calling into vaporetto)."""
    import glob
    from engine import Program
    from srcindex import SourceIndex
    d = dump(crate, features, no_default, target, bin_name)
    mir = d['mir']
    crates = [crate]
    secs = d['secs']
    feats = set(d['features'])
    for kw in extra:
        d2 = dump(**kw)
        mir += '\n' + d2['mir']
        crates.append(kw['crate'])
        secs += d2['secs']
        feats |= set(d2['features'])       # cfg(feature) in the sources of a merged crate is evaluated with that crate's features
    d['features'] = feats
    si = SourceIndex(d['src_root'], feats)
    files = []
    for cr in crates:
        files += [os.path.relpath(p, d['src_root']) for p in glob.glob(os.path.join(d['src_root'], cr, 'src', '**', '*.rs'), recursive=True)]
    si.scan_items(files)
    prog = Program(mir, si, crate)
    info = {k: d[k] for k in ('hash', 'cached', 'key')}
    info['secs'] = secs
    info['crates'] = crates
    info['features'] = sorted(d['features'])
    info['mir_lines'] = mir.count('\n')
    info['fns'] = len(prog.fns)
    info['stmts'] = prog.nstmts
    return prog, info


if __name__ == '__main__':
    import json
    prog, info = load_program(sys.argv[1] if len(sys.argv) > 1 else 'vaporetto', sys.argv[2].split(',') if len(sys.argv) > 2 else None)
    print(json.dumps(info, indent=1))
