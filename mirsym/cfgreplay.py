"""Native confirmation for C13: run the same model/text through the library built with the default features (main replay
driver) and with another feature set (/verif/replay_cfg) and compare."""
import hashlib
import json
import os
import subprocess

import replay

DIR = os.path.join(os.path.dirname(os.path.dirname(os.path.abspath(__file__))), 'replay_cfg')


def build_cfg(features):
    key = hashlib.sha256(','.join(sorted(features)).encode()).hexdigest()[:10]
    target = '/var/tmp/vpverif-target-cfg-' + key
    env = dict(os.environ); env['CARGO_NET_OFFLINE'] = 'true'; env['CARGO_TARGET_DIR'] = target
    env.pop('RUSTFLAGS', None)
    toolchain = ['+nightly'] if 'portable-simd' in features else []
    cmd = ['cargo'] + toolchain + ['build', '--offline', '--quiet', '--no-default-features', '--features', ','.join('f-' + f for f in features)]
    p = subprocess.run(cmd, cwd=DIR, env=env, stdout=subprocess.PIPE, stderr=subprocess.PIPE)
    if p.returncode != 0:
        raise RuntimeError('cfg replay does not build: ' + p.stderr.decode()[-2000:])
    return os.path.join(target, 'debug', 'vp-replay-cfg')


def compare(model_json, text, tags, features_b):
    res = replay.run([{'op': 'model', 'id': 'm', 'data': model_json}, {'op': 'model_dump', 'model': 'm'},
                      {'op': 'predictor', 'id': 'p', 'model': 'm', 'tags': tags}, {'op': 'sentence', 'id': 's', 'kind': 'raw', 'text': text},
                      {'op': 'predict', 's': 's', 'p': 'p'}] + ([{'op': 'fill_tags', 's': 's'}] if tags else []) + [{'op': 'observe', 's': 's'}])
    a = res[-1]
    exe = build_cfg(features_b)
    p = subprocess.run([exe], input=json.dumps({'bytes': res[1]['bytes'], 'text': text, 'tags': tags}).encode(), stdout=subprocess.PIPE, stderr=subprocess.PIPE, timeout=120)
    b = json.loads(p.stdout.decode()) if p.returncode == 0 and p.stdout.strip() else {'crash': p.returncode}
    keys = ['scores', 'boundaries'] + (['tags', 'n_tags'] if tags else [])
    diff = [k for k in keys if a.get(k) != b.get(k)]
    return bool(diff), {'differing': diff, 'default': {k: a.get(k) for k in keys}, 'other': b}
