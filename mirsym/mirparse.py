"""Parser for rustc `-Zunpretty=mir` text.

The dump is regenerated from /repo's working tree on every run (see mirdump.py); this module turns
it into Fn objects (blocks of parsed statements/terminators).  Statements are parsed lazily and
cached per distinct text line.
"""
import re

# --------------------------------------------------------------------------------------------
# low-level helpers

def _skip_string(s, k):
    """s[k] == '"': return index just past the closing quote."""
    j = k + 1
    n = len(s)
    while j < n and s[j] != '"':
        if s[j] == '\\':
            j += 1
        j += 1
    return j + 1


def _char_lit_end(s, k):
    """If a char literal starts at s[k] (== "'"), return index past it, else None (lifetime)."""
    n = len(s)
    if k + 2 < n and s[k + 1] == '\\':
        j = s.find("'", k + 3)
        if j != -1 and j - k <= 12:
            return j + 1
        return None
    if k + 2 < n and s[k + 2] == "'":
        return k + 3
    return None


def match_close(s, i):
    """s[i] is one of ([{ ; return index of the matching closer (strings / char literals skipped)."""
    depth = 0
    k = i
    n = len(s)
    while k < n:
        c = s[k]
        if c == '"':
            k = _skip_string(s, k)
            continue
        if c == "'":
            e = _char_lit_end(s, k)
            if e is not None:
                k = e
                continue
        elif c in '([{':
            depth += 1
        elif c in ')]}':
            depth -= 1
            if depth == 0:
                return k
        k += 1
    raise ValueError('unbalanced: ' + s)


def split_top(s, sep=','):
    """Split on sep at nesting depth 0 (parens, brackets, braces and angle brackets)."""
    out = []
    depth = 0
    angle = 0
    cur = []
    k = 0
    n = len(s)
    while k < n:
        c = s[k]
        if c == '"':
            j = _skip_string(s, k)
            cur.append(s[k:j]); k = j
            continue
        if c == "'":
            e = _char_lit_end(s, k)
            if e is not None:
                cur.append(s[k:e]); k = e
                continue
        if c in '([{':
            depth += 1
        elif c in ')]}':
            depth -= 1
        elif c == '<':
            angle += 1
        elif c == '>' and angle > 0 and s[k - 1] not in '-=':
            angle -= 1
        if c == sep and depth == 0 and angle == 0:
            out.append(''.join(cur).strip()); cur = []
        else:
            cur.append(c)
        k += 1
    last = ''.join(cur).strip()
    if last:
        out.append(last)
    return out


_sg_cache = {}


def strip_generics(path):
    """Remove every balanced <...> group (and a preceding '::') from a path."""
    r = _sg_cache.get(path)
    if r is None:
        r = _sg_cache[path] = _strip_generics(path)
    return r


def _strip_generics(path):
    out = []
    depth = 0
    k = 0
    n = len(path)
    while k < n:
        c = path[k]
        if c == '<':
            if depth == 0 and out[-2:] == [':', ':']:
                out = out[:-2]
            depth += 1
        elif c == '>' and depth > 0 and path[k - 1] not in '-=':
            depth -= 1
        elif depth == 0:
            out.append(c)
        k += 1
    return ''.join(out)


# --------------------------------------------------------------------------------------------
# functions

class Fn:
    __slots__ = ('name', 'args', 'argtys', 'ret', 'hdr', 'types', 'raw', 'blocks', 'kind', 'nstmts',
                 'impl_span', 'method', 'closure_loc', 'debug')

    def __init__(self, name, hdr, kind):
        self.name = name; self.hdr = hdr; self.kind = kind
        self.args = []; self.argtys = []; self.ret = None
        self.types = {}; self.raw = {}; self.blocks = None; self.nstmts = 0
        self.impl_span = None; self.method = None; self.closure_loc = None; self.debug = {}

    def __repr__(self):
        return 'Fn(%s)' % self.name

    def parsed(self):
        if self.blocks is None:
            b = {}
            for lbl, lines in self.raw.items():
                b[lbl] = [parse_stmt_cached(t) for t in lines]
            self.blocks = b
        return self.blocks


_LET = re.compile(r'let (?:mut )?(_\d+): (.*);$')
_BB = re.compile(r'(bb\d+)(?: \(cleanup\))?: \{$')
_DEBUG = re.compile(r'debug (\w+) => (.*);$')


def _fill_body(f, body_lines):
    cur = None
    for ln in body_lines:
        t = ln.strip()
        if not t or t.startswith('//'):
            continue
        if cur is None:
            m = _LET.match(t)
            if m:
                f.types[m.group(1)] = m.group(2); continue
            m = _BB.match(t)
            if m:
                cur = []; f.raw[m.group(1)] = cur
                if '(cleanup)' in t:
                    cur = []        # cleanup blocks are never executed (unwinding is not followed)
                continue
            m = _DEBUG.match(t)
            if m:
                f.debug[m.group(1)] = m.group(2)
            continue
        if t == '}':
            cur = None; continue
        cur.append(t)
        f.nstmts += 1


_IMPL_AT = re.compile(r'<impl at ([^>]*?):(\d+):(\d+): (\d+):(\d+)>')


def parse_mir(txt):
    """Return dict name -> [Fn] and dict const-name -> Fn|str for the dump text."""
    fns = {}
    consts = {}
    lines = txt.split('\n')
    i = 0
    n = len(lines)
    while i < n:
        ln = lines[i]
        if ln.startswith('fn ') and ln.endswith('{'):
            j = i + 1
            while j < n and lines[j] != '}':
                j += 1
            m = re.match(r'fn (.*?)\((.*)\) -> (.*) \{$', ln)
            if m:
                name = m.group(1)
                f = Fn(name, ln, 'fn')
                f.ret = m.group(3)
                for a in split_top(m.group(2)):
                    ma = re.match(r'(_\d+): (.*)$', a)
                    if ma:
                        f.args.append(ma.group(1)); f.argtys.append(ma.group(2)); f.types[ma.group(1)] = ma.group(2)
                _fill_body(f, lines[i + 1:j])
                ms = _IMPL_AT.search(name)
                if ms:
                    f.impl_span = (ms.group(1), int(ms.group(2)), int(ms.group(3)), int(ms.group(4)), int(ms.group(5)))
                tail = name[ms.end():] if ms else name
                f.method = tail.lstrip(':')
                mc = re.search(r'\{closure@([^}]*)\}', f.argtys[0]) if f.argtys and '{closure#' in name else None
                if mc:
                    f.closure_loc = mc.group(1)
                fns.setdefault(name, []).append(f)
            i = j + 1
            continue
        if ln.startswith('const ') or ln.startswith('static '):
            m = re.match(r'(?:const|static(?: mut)?) (.*?) = (.*)$', ln)
            if m and ': ' in m.group(1):
                name, ty = m.group(1).rsplit(': ', 1)
                rhs = m.group(2)
                if rhs == '{':
                    j = i + 1
                    while j < n and lines[j] != '}':
                        j += 1
                    f = Fn(name, ln, 'const')
                    f.ret = ty
                    _fill_body(f, lines[i + 1:j])
                    consts[name] = f
                    i = j + 1
                    continue
                consts[name] = rhs.rstrip(';')
            i += 1
            continue
        i += 1
    return fns, consts


# --------------------------------------------------------------------------------------------
# places / operands / rvalues

def parse_place(s):
    """-> (place, rest).  place: ('local', n) | ('deref', p) | ('field', p, i) | ('downcast', p, v)
    | ('index', p, local) | ('cindex', p, i, from_end) | ('subslice', p, lo, hi, from_end)"""
    s = s.lstrip()
    if s[0] == '(':
        if s[1] == '*':
            inner, rest = parse_place(s[2:])
            assert rest[0] == ')', s
            p = ('deref', inner); rest = rest[1:]
        else:
            inner, rest = parse_place(s[1:])
            if rest.startswith(' as '):
                m = re.match(r' as ([A-Za-z_0-9]+)\)', rest)
                if m is None:
                    m = re.match(r' as variant#(\d+)\)', rest)
                p = ('downcast', inner, m.group(1)); rest = rest[m.end():]
            elif rest[0] == '.':
                m = re.match(r'\.(\d+): ', rest)
                k = m.end(); depth = 0
                while True:
                    c = rest[k]
                    if c in '([{':
                        depth += 1
                    elif c in ')]}':
                        if depth == 0:
                            break
                        depth -= 1
                    k += 1
                p = ('field', inner, int(m.group(1))); rest = rest[k + 1:]
            else:
                raise ValueError('place? ' + s)
    else:
        m = re.match(r'_\d+', s)
        assert m, s
        p = ('local', m.group(0)); rest = s[m.end():]
    while rest.startswith('['):
        e = match_close(rest, 0)
        inside = rest[1:e]
        m = re.match(r'(-?\d+) of (\d+)$', inside)
        if m:
            k = int(m.group(1))
            p = ('cindex', p, abs(k), inside.startswith('-'))
        elif re.match(r'_\d+$', inside):
            p = ('index', p, inside)
        else:
            m = re.match(r'(\d+):(-?)(\d*)$', inside)
            assert m, ('subslice', s)
            p = ('subslice', p, int(m.group(1)), int(m.group(3) or 0), m.group(2) == '-')
        rest = rest[e + 1:]
    return p, rest


def parse_operand(s):
    s = s.strip()
    if s.startswith('no_retag '):
        s = s[9:]
    if s.startswith('copy '):
        p, rest = parse_place(s[5:]); assert not rest.strip(), (s, rest); return ('copy', p)
    if s.startswith('move '):
        p, rest = parse_place(s[5:]); assert not rest.strip(), (s, rest); return ('move', p)
    if s.startswith('const '):
        return ('const', s[6:])
    # bare function item passed as a value, e.g. `Vec::<TagWeight>::new`
    return ('fnitem', s)


BINOPS = {'Add', 'Sub', 'Mul', 'Div', 'Rem', 'BitAnd', 'BitOr', 'BitXor', 'Shl', 'Shr', 'Eq', 'Ne', 'Lt', 'Le', 'Gt',
          'Ge', 'AddWithOverflow', 'SubWithOverflow', 'MulWithOverflow', 'AddUnchecked', 'SubUnchecked',
          'MulUnchecked', 'ShlUnchecked', 'ShrUnchecked', 'Offset', 'Cmp'}
UNOPS = {'Not', 'Neg', 'PtrMetadata'}
NULLOPS = {'SizeOf', 'AlignOf', 'UbChecks', 'ContractChecks', 'OverflowChecks'}


def parse_rvalue(s):
    s = s.strip()
    m = re.match(r'([A-Za-z]+)\((.*)\)$', s)
    if m and m.group(1) in BINOPS:
        a, b = split_top(m.group(2)); return ('bin', m.group(1), parse_operand(a), parse_operand(b))
    if m and m.group(1) in UNOPS:
        return ('un', m.group(1), parse_operand(m.group(2)))
    if m and m.group(1) in NULLOPS:
        return ('nullop', m.group(1), m.group(2))
    if s.startswith('discriminant('):
        p, rest = parse_place(s[len('discriminant('):]); return ('discr', p)
    if s.startswith('&raw const ') or s.startswith('&raw mut '):
        body = s.split(' ', 2)[2]
        if body.startswith('(fake) '):
            body = body[len('(fake) '):]
        p, rest = parse_place(body); return ('ref', p, 'raw')
    if s.startswith('&mut '):
        p, rest = parse_place(s[5:]); return ('ref', p, 'mut')
    if s.startswith('&fake shallow '):
        p, rest = parse_place(s[len('&fake shallow '):]); return ('ref', p, 'shared')
    if s.startswith('&'):
        p, rest = parse_place(s[1:]); return ('ref', p, 'shared')
    for pre in ('copy ', 'move ', 'const ', 'no_retag '):
        if s.startswith(pre):
            m2 = re.match(r'(.*) as (.*) \((\w+)(\(.*\))?\)$', s)
            if m2 and not s.startswith('const "') and not s.startswith('const b"'):
                try:
                    return ('cast', parse_operand(m2.group(1)), m2.group(2), m2.group(3), m2.group(4) or '')
                except Exception:
                    pass
            return ('use', parse_operand(s))
    if s.startswith('('):
        e = match_close(s, 0)
        if e == len(s) - 1:
            return ('tuple', [parse_operand(x) for x in split_top(s[1:e])])
    if s.startswith('['):
        e = match_close(s, 0)
        inside = s[1:e]
        parts = split_top(inside, ';')
        if len(parts) == 2:
            return ('repeat', parse_operand(parts[0]), parts[1].strip())
        return ('array', [parse_operand(x) for x in split_top(inside)])
    if s.startswith('{closure@') or s.startswith('{coroutine@'):
        e = match_close(s, 0)
        loc = s[len('{closure@'):e]
        rest = s[e + 1:].strip()
        ops = []
        if rest.startswith('{'):
            inner = rest[1:match_close(rest, 0)].strip()
            for it in split_top(inner):
                nm, op = it.split(': ', 1)
                ops.append(parse_operand(op))
        return ('closure', loc, ops)
    if s.endswith('}'):
        depth = 0
        for k in range(len(s) - 1, -1, -1):
            if s[k] == '}':
                depth += 1
            elif s[k] == '{':
                depth -= 1
                if depth == 0:
                    break
        path = s[:k].strip(); inside = s[k + 1:-1].strip()
        names = []; ops = []
        for it in split_top(inside):
            nm, op = it.split(': ', 1)
            names.append(nm.strip()); ops.append(parse_operand(op))
        return ('struct', path, names, ops)
    if s.endswith(')'):
        depth = 0
        for k in range(len(s) - 1, -1, -1):
            if s[k] == ')':
                depth += 1
            elif s[k] == '(':
                depth -= 1
                if depth == 0:
                    break
        path = s[:k]; inside = s[k + 1:-1]
        return ('variant', path, [parse_operand(x) for x in split_top(inside)])
    return ('variant', s, [])


_CALLTAIL = re.compile(r'\) -> (\[return: (bb\d+)(?:, unwind[^\]]*)?\]|unwind \w+|bb\d+)$')
_SKIP = ('StorageLive', 'StorageDead', 'PlaceMention', 'FakeRead', 'AscribeUserType', 'Retag', 'Coverage',
         'ConstEvalCounter', 'nop', 'Deinit', 'BackwardIncompatibleDropHint')


def parse_stmt(t):
    if t.endswith(';'):
        t = t[:-1]
    if t.startswith('goto -> '):
        return ('goto', t[8:])
    if t == 'return':
        return ('return',)
    if t == 'unreachable':
        return ('unreachable',)
    if t.startswith('resume') or t.startswith('terminate') or t.startswith('abort'):
        return ('resume',)
    if t.startswith('switchInt('):
        e = match_close(t, len('switchInt'))
        op = parse_operand(t[len('switchInt('):e])
        tg = t[e + 1:].strip(); assert tg.startswith('-> ['), t
        arms = []
        for it in split_top(tg[4:-1]):
            k, v = it.split(': ')
            arms.append((None if k == 'otherwise' else int(k), v))
        return ('switch', op, arms)
    if t.startswith('drop('):
        m = re.search(r'-> \[return: (bb\d+)', t)
        e = match_close(t, len('drop'))
        try:
            pl, rest = parse_place(t[len('drop('):e])
        except Exception:
            pl = None
        return ('drop', pl, m.group(1))
    if t.startswith('assert('):
        e = match_close(t, len('assert'))
        args = split_top(t[len('assert('):e])
        cond = args[0]; neg = False
        if cond.startswith('!'):
            neg = True; cond = cond[1:]
        m = re.search(r'success: (bb\d+)', t[e:])
        return ('assert', neg, parse_operand(cond), args[1], m.group(1))
    for skip in _SKIP:
        if t.startswith(skip):
            return ('nop',)
    if t.startswith('falseEdge') or t.startswith('falseUnwind'):
        m = re.search(r'real: (bb\d+)', t); return ('goto', m.group(1))
    if t.startswith('assume('):
        return ('assume', parse_operand(t[len('assume('):-1]))
    m = re.match(r'discriminant\((.*)\) = (\d+)$', t)
    if m:
        p, _ = parse_place(m.group(1)); return ('setdiscr', p, int(m.group(2)))
    p, rest = parse_place(t)
    assert rest.startswith(' = '), t
    rhs = rest[3:]
    m = _CALLTAIL.search(rhs)
    if m and not rhs.startswith('const "') and not rhs.startswith('const b"'):
        call = rhs[:m.start() + 1]
        ret = m.group(2)
        depth = 0
        for k in range(len(call) - 1, -1, -1):
            if call[k] == ')':
                depth += 1
            elif call[k] == '(':
                depth -= 1
                if depth == 0:
                    break
        callee = call[:k]
        args = [parse_operand(x) for x in split_top(call[k + 1:-1])]
        if callee.startswith('move ') or callee.startswith('copy '):
            return ('callptr', p, parse_operand(callee), args, ret)
        return ('call', p, callee, args, ret)
    return ('assign', p, parse_rvalue(rhs))


_cache = {}


def parse_stmt_cached(t):
    r = _cache.get(t)
    if r is None:
        r = _cache[t] = parse_stmt(t)
    return r
