"""Check driver: `/verif/check <Cxx> [--tier quick|thorough] [--replay <path>]`.

Exit 0: the property held on everything explored (known findings printed as KNOWN-FINDING lines).
Exit 1: a violation that reproduces natively and is not listed in known_findings.json
        (`VIOLATION property=<id> replay=<path>`).
Exit 2: inconclusive / broken (unsupported MIR construct, solver unknown, vacuous harness,
        counterexample that does not reproduce natively, engine validation mismatch).
"""
import argparse
import importlib
import json
import multiprocessing as mp
import os
import sys
import time
import traceback

HERE = os.path.dirname(os.path.abspath(__file__))
VERIF = os.path.dirname(HERE)
sys.path.insert(0, HERE)
sys.path.insert(0, os.path.join(VERIF, 'harness'))
sys.setrecursionlimit(20000)

NPROC = int(os.environ.get('VERIF_NPROC', '16'))

_W = {}     # per-worker caches


def _load_progs(spec):
    import mirdump
    progs = {}
    for name, kw in spec.items():
        key = json.dumps(kw, sort_keys=True)
        if key not in _W:
            _W[key] = mirdump.load_program(**kw)
        progs[name] = _W[key][0]
    return progs


def worker_unit(args):
    """explore one unit of work: (module, job, prefixes, cap) -> plain-data result"""
    modname, job, prefixes, cap, deadline_abs, timeout_ms, mode = args
    t0 = time.time()
    budget_s = max(5.0, deadline_abs - t0)
    res = {'job': job.get('name'), 'violations': [], 'leftover': [], 'inconclusive': [], 'error': None}
    if t0 > deadline_abs:
        # the exploration budget of this run is used up: the unit is handed back unexplored (counted and reported by the driver)
        res['leftover'] = [list(p) for p in prefixes]; res['skipped'] = True; res['stats'] = {}; res['secs'] = 0.0
        return res
    try:
        import z3
        from engine import Engine, Stats
        from values import Unsupported
        mod = importlib.import_module(modname)
        progs = _load_progs(mod.PROGRAMS)
        ekey = ('engine', modname, job.get('prog', 'core'))
        e = _W.get(ekey)
        if e is None:
            e = _W[ekey] = Engine(progs[job.get('prog', 'core')], solver_timeout_ms=timeout_ms)
        e.stats = Stats(); e.violations = []; e.inconclusive = []
        e.timeout_ms = timeout_ms
        harness, describe = mod.make(e, progs, job)
        e.pending = [list(p) for p in prefixes]
        e.fork_mode = (mode == 'fork')
        e.is_child = False
        e.deadline = t0 + budget_s
        if mode == 'fork':
            cap = 1 << 60
        n = 0
        samples = []
        while e.pending:
            if n >= cap or time.time() - t0 > budget_s:
                break
            e.run_path(harness, e.pending.pop(), describe)
            n += 1
            if len(samples) < 2 and hasattr(e, 'sample'):
                try:
                    smp = e.sample()
                    if smp is not None:
                        samples.append(smp)
                except Exception:
                    pass
        res['leftover'] = e.pending
        e.pending = []
        for v in e.violations:
            res['violations'].append({'kind': v.kind, 'msg': v.msg, 'where': v.where, 'data': v.data, 'job': job.get('name')})
        e.fork_mode = False
        st = e.stats
        res['stats'] = {k: getattr(st, k) for k in ('paths', 'steps', 'feas_checks', 'assert_checks', 'assert_violated', 'solver_s', 'infeasible', 'assert_structural')}
        res['stubs'] = st.stubs; res['fns'] = st.fns; res['reached'] = st.reached
        res['samples'] = samples
        res['inconclusive'] = e.inconclusive
    except Exception as ex:       # Unsupported and engine bugs: inconclusive, never a pass
        res['error'] = '%s: %s' % (type(ex).__name__, ex)
        res['trace'] = traceback.format_exc()[-3000:]
        res.setdefault('stats', {})
    res['secs'] = time.time() - t0
    return res


def worker_validate(args):
    modname, case = args
    try:
        from engine import Engine
        import replay as replay_mod
        mod = importlib.import_module(modname)
        progs = _load_progs(mod.PROGRAMS)
        ekey = ('vengine', modname)
        e = _W.get(ekey)
        if e is None:
            e = _W[ekey] = Engine(progs[getattr(mod, 'VALIDATION_PROG', 'core')])
        return mod.validate_case(e, progs, replay_mod, case)
    except Exception as ex:
        return {'case': case, 'error': '%s: %s' % (type(ex).__name__, ex), 'trace': traceback.format_exc()[-1500:]}


def chunk(lst, n):
    k = max(1, (len(lst) + n - 1) // n)
    return [lst[i:i + k] for i in range(0, len(lst), k)]


def load_known():
    p = os.path.join(VERIF, 'known_findings.json')
    if not os.path.exists(p):
        return []
    return json.load(open(p)).get('findings', [])


def main():
    ap = argparse.ArgumentParser()
    ap.add_argument('prop')
    ap.add_argument('--tier', default=os.environ.get('VERIF_TIER', 'quick'))
    ap.add_argument('--replay', default=None)
    ap.add_argument('--jobs', default=None, help='comma separated job-name filter (development aid)')
    ap.add_argument('--no-validate', action='store_true')
    args = ap.parse_args()
    pid = args.prop
    tier = args.tier if args.tier in ('quick', 'thorough') else 'quick'
    seed = int(os.environ.get('VERIF_SEED', '0') or 0)
    t_start = time.time()
    modname = pid + '_harness'
    mod = importlib.import_module(modname)

    import replay as replay_mod
    if args.replay:
        sc = json.load(open(args.replay))
        ok_, detail = mod.confirm(sc, replay_mod)
        print(json.dumps(detail, ensure_ascii=False)[:4000])
        print('REPRODUCED' if ok_ else 'NOT-REPRODUCED')
        sys.exit(1 if ok_ else 0)

    os.makedirs(os.path.join(VERIF, 'evidence'), exist_ok=True)
    os.makedirs(os.path.join(VERIF, 'counterexamples'), exist_ok=True)
    ev_dir = os.environ.get('VERIF_EVIDENCE_DIR') or os.path.join(VERIF, 'evidence')      # development runs on modified trees (seedrun.sh) write elsewhere
    os.makedirs(ev_dir, exist_ok=True)
    ev_path = os.path.join(ev_dir, pid + '.json')
    problems = []        # reasons for exit 2

    # 1. MIR dumps (regenerated from /repo's working tree; cached by content hash) and replay build
    import mirdump
    prog_info = {}
    try:
        for name, kw in mod.PROGRAMS.items():
            prog, info = mirdump.load_program(**kw)
            _W[json.dumps(kw, sort_keys=True)] = (prog, info)
            prog_info[name] = info
        replay_mod.build('dev')
    except Exception as ex:
        print('INCONCLUSIVE: cannot build MIR dump / replay driver from the current tree: %s' % ex)
        write_evidence(ev_path, pid, tier, seed, {}, {}, [], [], ['build failed: %s' % ex], t_start, mod, prog_info, 0, 0, [])
        sys.exit(2)

    jobs = mod.jobs(tier, seed)
    if args.jobs:
        want = args.jobs.split(',')
        jobs = [j for j in jobs if any(w in j['name'] for w in want)]
    cap = getattr(mod, 'UNIT_CAP', 400)
    budget_total = getattr(mod, 'BUDGET_S', {'quick': 280, 'thorough': 2400})[tier]
    timeout_ms = 10000 if tier == 'quick' else 60000

    agg = {'paths': 0, 'steps': 0, 'feas_checks': 0, 'assert_checks': 0, 'assert_violated': 0, 'solver_s': 0.0, 'infeasible': 0, 'assert_structural': 0}
    stubs = {}; fns = {}; reached = {}; violations = []; samples = []; per_job = {}
    ctx = mp.get_context('fork')
    pool = ctx.Pool(NPROC)
    pending = []
    deadline = t_start + budget_total

    use_fork = os.environ.get('VERIF_FORK', '0') != '0'   # fork-based DFS measured slower here (fork of a large process ~20 ms)
    split_cap = getattr(mod, 'SPLIT_CAP', 12)

    def submit(job, prefixes, mode='split'):
        if not use_fork:
            mode = 'replay'
        return pool.apply_async(worker_unit, ((modname, job, prefixes, split_cap if mode == 'split' else cap, deadline, timeout_ms, mode),))

    if tier != 'quick':
        # anytime exploration: the jobs of the quick tier first, then the additional ones from small to large, so that a budget-limited run covers whole bounds in order
        try:
            qn = {j['name'] for j in mod.jobs('quick', seed)}
        except Exception:
            qn = set()
        jobs = sorted(jobs, key=lambda j: (0 if j['name'] in qn else 1, j.get('n', 0) or 0))
    incomplete = {}
    for j in jobs:
        pending.append(submit(j, [[]]))
    jobmap = {j['name']: j for j in jobs}
    units = 0
    unfinished = 0
    last_report = time.time()
    while pending:
        nxt = []
        progressed = False
        if os.environ.get('VERIF_PROGRESS') and time.time() - last_report > 60:
            last_report = time.time()
            sys.stderr.write('[progress %ds] units done %d, pending %d, paths %d\n' % (time.time() - t_start, units, len(pending), agg['paths']))
            sys.stderr.flush()
        for r in pending:
            if not r.ready():
                nxt.append(r); continue
            progressed = True
            res = r.get()
            units += 1
            if res.get('error'):
                problems.append('job %s: %s' % (res['job'], res['error']))
                if os.environ.get('VERIF_DEBUG'):
                    print(res.get('trace', ''))
            for k in agg:
                agg[k] += res.get('stats', {}).get(k, 0)
            pj = per_job.setdefault(res['job'], {'paths': 0, 'secs': 0.0, 'violations': 0})
            pj['paths'] += res.get('stats', {}).get('paths', 0); pj['secs'] += res['secs']; pj['violations'] += len(res['violations'])
            for d, od in ((stubs, res.get('stubs', {})), (fns, res.get('fns', {})), (reached, res.get('reached', {}))):
                for k, v in od.items():
                    d[k] = d.get(k, 0) + v
            violations.extend(res['violations'])
            if len(samples) < 6:
                samples.extend(res.get('samples', [])[:2])
            for inc in res.get('inconclusive', []):
                problems.append('job %s: %s' % (res['job'], inc))
            left = res['leftover']
            if left:
                if time.time() > deadline or res.get('skipped'):
                    unfinished += len(left)
                    incomplete[res['job']] = incomplete.get(res['job'], 0) + len(left)
                else:
                    if use_fork:
                        # full exploration of each pending subtree by fork-based DFS (no re-execution of prefixes)
                        for ch in chunk(left, max(1, min(len(left), 4 * NPROC))):
                            nxt.append(submit(jobmap[res['job']], ch, 'fork'))
                    else:
                        for ch in chunk(left, max(1, min(len(left), NPROC))):
                            nxt.append(submit(jobmap[res['job']], ch))
        pending = nxt
        if not progressed:
            time.sleep(0.02)
    # engine validation cases that the harness wants run in parallel
    val_par = {'runs': 0, 'mismatches': []}
    if hasattr(mod, 'validation_cases') and not args.no_validate:
        cases = mod.validation_cases(tier, seed)
        for r in pool.imap_unordered(worker_validate, [(modname, c) for c in cases]):
            val_par['runs'] += 1
            if r is not None:
                val_par['mismatches'].append(r)
    pool.close(); pool.join()
    budget_note = None
    if unfinished:
        if tier == 'quick':
            problems.append('time budget (%ds) exhausted with %d unexplored path prefixes: bound not covered' % (budget_total, unfinished))
        else:
            # the thorough tier is an anytime exploration: its bound is "what the budget reaches, in the stated job order"; what was not reached is reported, not claimed
            budget_note = {'budget_s': budget_total, 'jobs_fully_explored': len(jobs) - len(incomplete), 'jobs_not_fully_explored': len(incomplete),
                           'unexplored_path_prefixes': unfinished, 'first_incomplete_jobs': sorted(incomplete)[:40]}
            print('NOTE: thorough budget of %ds reached: %d of %d jobs fully explored, %d unexplored path prefixes in %d jobs are NOT covered by this run (listed in the evidence)' % (
                budget_total, len(jobs) - len(incomplete), len(jobs), unfinished, len(incomplete)))

    # 2. vacuity witnesses
    for lbl in getattr(mod, 'MUST_REACH', []):
        if reached.get(lbl, 0) == 0 and not args.jobs:
            problems.append('vacuity: label %r was never reached' % lbl)

    # 3. engine validation (concrete differential runs of the engine against the native library)
    val = {'runs': 0, 'mismatches': []}
    for mm in val_par['mismatches'][:5]:
        problems.append('engine validation mismatch: %s' % json.dumps(mm, ensure_ascii=False, default=str)[:700])
    if hasattr(mod, 'validate') and not args.no_validate:
        try:
            progs = _load_progs(mod.PROGRAMS)
            val = mod.validate(progs, replay_mod, seed, tier)
            for mm in val.get('mismatches', [])[:5]:
                problems.append('engine validation mismatch: %s' % json.dumps(mm, ensure_ascii=False)[:600])
        except Exception as ex:
            problems.append('engine validation failed to run: %s: %s' % (type(ex).__name__, ex))
            if os.environ.get('VERIF_DEBUG'):
                traceback.print_exc()

    # 4. triage violations: group by role, confirm natively, match against known findings
    known = load_known()
    by_role = {}
    ignored = 0
    for v in violations:
        role = mod.role(v)
        if role is None:        # not a violation of THIS property (e.g. C18 re-running other harnesses)
            ignored += 1
            continue
        by_role.setdefault(role, []).append(v)
    confirmed = []; unconfirmed = []; known_hit = []
    exit_code = 0
    for role, vs in sorted(by_role.items()):
        ok_ = False; detail = None; wit = None
        # witnesses to try natively: one per distinct job first (a witness that depends on a stubbed oracle may not reproduce while another does)
        seen_jobs = set(); first = []; rest = []
        for v in vs:
            jn = v.get('job')
            (rest if jn in seen_jobs else first).append(v)
            seen_jobs.add(jn)
        for v in (first + rest)[:10]:
            if v['data'] is None:
                continue
            try:
                ok_, detail = mod.confirm(v['data'], replay_mod)
            except Exception as ex:
                ok_, detail = False, {'error': '%s: %s' % (type(ex).__name__, ex)}
            if ok_:
                wit = v; break
        if not ok_:
            unconfirmed.append({'role': role, 'msg': vs[0]['msg'], 'data': vs[0]['data'], 'detail': detail, 'count': len(vs)})
            continue
        entry = None
        for k in known:
            if k.get('property') == pid and k.get('status', 'known') == 'known' and k.get('role') == role:
                entry = k; break
        cex_path = os.path.join(VERIF, 'counterexamples', '%s_%s.json' % (pid, ''.join(ch if ch.isalnum() else '_' for ch in role)[:80]))
        json.dump(wit['data'], open(cex_path, 'w'), ensure_ascii=False, indent=1)
        rec = {'role': role, 'msg': wit['msg'], 'count': len(vs), 'replay': cex_path, 'witness': wit['data'], 'native': detail}
        if entry is not None:
            known_hit.append(rec)
            print('KNOWN-FINDING: property=%s %s [role=%s]' % (pid, entry.get('what', wit['msg']), role))
        else:
            confirmed.append(rec)
            print('VIOLATION property=%s replay=%s' % (pid, cex_path))
            print('  role=%s: %s' % (role, wit['msg']))
            exit_code = 1
    for u in unconfirmed:
        problems.append('counterexample does not reproduce natively (engine/model defect?): role=%s msg=%s data=%s native=%s' % (
            u['role'], u['msg'], json.dumps(u['data'], ensure_ascii=False)[:300], json.dumps(u['detail'], ensure_ascii=False)[:300]))

    wall = time.time() - t_start
    write_evidence(ev_path, pid, tier, seed, agg, {'stubs': stubs, 'fns': fns, 'reached': reached, 'per_job': per_job, 'units': units, 'budget_note': budget_note},
                   confirmed, known_hit, problems, t_start, mod, prog_info, len(jobs), val.get('runs', 0) + val_par['runs'], samples, unconfirmed)
    print('%s tier=%s: %d jobs, %d paths, %d MIR statements, %d feasibility queries, %d assertion queries (%d violated), solver %.1fs, wall %.1fs'
          % (pid, tier, len(jobs), agg['paths'], agg['steps'], agg['feas_checks'], agg['assert_checks'], agg['assert_violated'], agg['solver_s'], wall))
    if problems:
        for p in problems[:20]:
            print('INCONCLUSIVE: ' + p)
        if exit_code == 0:
            exit_code = 2
    sys.exit(exit_code)


def write_evidence(path, pid, tier, seed, agg, extra, confirmed, known_hit, problems, t_start, mod, prog_info, njobs, nval, samples, unconfirmed=()):
    reached = extra.get('reached', {})
    nontrivial = sum(v for k, v in reached.items() if not k.startswith('cover:'))
    cov = {
        'states': max(1, agg.get('paths', 0)),
        'transitions': max(1, agg.get('feas_checks', 0) + agg.get('paths', 0)),
        'traces_validated_against_impl': nval + len(confirmed) + len(known_hit),
        'samples': (samples or [{'note': 'no sample recorded'}])[:6],
        'evaluations': max(1, agg.get('assert_checks', 0) + agg.get('assert_structural', 0)),
        'distinct_nontrivial': max(2, len([1 for k, v in reached.items() if v > 0]) if nontrivial == 0 else min(nontrivial, agg.get('paths', 0)) or 2),
        'rule': 'states = distinct symbolic paths (decision sequences) explored to completion; transitions = solver feasibility queries at forks + paths; '
                'evaluations = property assertions decided (by a solver query, or structurally when both sides are the same term); distinct_nontrivial = paths that reached a property assertion '
                '(each path is a distinct class of inputs; within a path every value is covered by the solver).',
        'exhaustive': not problems and not extra.get('budget_note'),
        'budget_limited_exploration': extra.get('budget_note'),
        'explanation': getattr(mod, 'EXPLANATION', ''),
        'bounds': getattr(mod, 'BOUNDS', {}).get(tier, getattr(mod, 'BOUNDS', {})),
        'outside_bounds': getattr(mod, 'OUTSIDE', ''),
        'engine': {'name': 'mirsym (bounded symbolic execution of rustc MIR, z3)', 'z3': _z3_version(),
                   'mir': prog_info},
        'jobs': njobs,
        'paths': agg.get('paths', 0), 'mir_statements_executed': agg.get('steps', 0),
        'feasibility_queries': agg.get('feas_checks', 0),
        'assertion_queries': agg.get('assert_checks', 0), 'assertions_decided_structurally': agg.get('assert_structural', 0), 'assertion_queries_violated': agg.get('assert_violated', 0),
        'infeasible_branches_pruned': agg.get('infeasible', 0),
        'solver_time_s': round(agg.get('solver_s', 0.0), 2),
        'functions_encoded': dict(sorted(extra.get('fns', {}).items(), key=lambda kv: -kv[1])[:80]),
        'stubs_hit': dict(sorted(extra.get('stubs', {}).items(), key=lambda kv: -kv[1])),
        'assertions_reached': reached,
        'per_job': extra.get('per_job', {}),
        'engine_validation_runs': nval,
        'violations_confirmed': confirmed, 'known_findings_hit': known_hit,
        'unconfirmed_counterexamples': list(unconfirmed)[:5],
        'inconclusive': problems[:30],
    }
    ev = {'property_id': pid, 'tier': tier, 'seed': seed, 'level': 'model_checking', 'coverage': cov,
          'assumptions': getattr(mod, 'ASSUMPTIONS', []), 'wall_s': round(time.time() - t_start, 2),
          'violations': len(confirmed)}
    tmp = path + '.tmp'
    json.dump(ev, open(tmp, 'w'), ensure_ascii=False, indent=1, default=str)
    os.replace(tmp, path)


def _z3_version():
    try:
        import z3
        return z3.get_version_string()
    except Exception:
        return '?'


if __name__ == '__main__':
    main()
