"""Generate /verif/MANIFEST.json from the harness modules (kept valid at all times)."""
import importlib
import json
import os
import sys

HERE = os.path.dirname(os.path.abspath(__file__))
VERIF = os.path.dirname(HERE)
sys.path.insert(0, HERE); sys.path.insert(0, os.path.join(VERIF, 'harness'))

ALL = ['C%02d' % i for i in range(1, 21)]
NA_FILE = os.path.join(VERIF, 'not_applicable.json')


def main():
    checks = []
    claimed = []
    for pid in ALL:
        p = os.path.join(VERIF, 'harness', pid + '_harness.py')
        if not os.path.exists(p):
            continue
        mod = importlib.import_module(pid + '_harness')
        if getattr(mod, 'DISABLED', False):
            continue
        claimed.append(pid)
        checks.append({
            'property_id': pid,
            'quick_cmd': './check %s --tier quick' % pid,
            'thorough_cmd': './check %s --tier thorough' % pid,
            'evidence_file': 'evidence/%s.json' % pid,
            'replay_cmd_template': './check %s --replay {path}' % pid,
            'engine': getattr(mod, 'ENGINE', 'mirsym'),
            'level_claimed': {
                'category': 'model_checking',
                'text': getattr(mod, 'LEVEL_TEXT', mod.EXPLANATION),
                'design_ref': 'DESIGN.md section 4 (' + pid + ') and section 8 (as built)',
            },
            'level_note': getattr(mod, 'LEVEL_NOTE', '; '.join(mod.ASSUMPTIONS) + '. Outside the bound: ' + mod.OUTSIDE),
            'technique': getattr(mod, 'TECHNIQUE', 'bounded symbolic execution of rustc MIR with z3 (own engine mirsym): solver decides every path; counterexamples replayed natively'),
        })
    na = json.load(open(NA_FILE)) if os.path.exists(NA_FILE) else {}
    not_applicable = []
    for pid in ALL:
        if pid not in claimed:
            not_applicable.append({'property_id': pid, 'reason': na.get(pid, 'check not built yet in this round (planned: DESIGN.md section 4); nothing is claimed for it')})
    man = {
        'version': 1,
        'setup_cmd': './setup.sh',
        'hooks': {
            'guard': 'none',
            'enable': 'no hooks or instrumentation were added to /repo: the MIR is dumped from a scratch copy of the working tree (cargo +nightly rustc -- -Zunpretty=mir) and the native '
                      'drivers depend on /repo by path; the only commits made in /repo are the unguarded "fix:" repairs listed in known_findings.json',
            'baseline_off_cmd': 'cd /repo && cargo test --workspace --no-fail-fast --offline',
            'source_commits': [],
            'add_only': True,
        },
        'engines': [
            {'name': 'mirsym', 'path': 'mirsym/', 'serves_properties': claimed,
             'kind_free_text': 'own bounded symbolic executor over rustc MIR text (python3-vt + z3): shape-concrete/data-symbolic, DFS by replay, 16 worker processes'},
            {'name': 'replay', 'path': 'replay/', 'serves_properties': claimed,
             'kind_free_text': 'native Rust driver (path dependency on /repo) that replays solver counterexamples and validates the engine; never the deciding step'},
            {'name': 'replay_cfg', 'path': 'replay_cfg/', 'serves_properties': [p for p in ('C13', 'C18') if p in claimed],
             'kind_free_text': 'native driver built per cargo-feature set of vaporetto (confirmation of counterexamples of other feature configurations)'},
            {'name': 'replay_tantivy', 'path': 'replay_tantivy/', 'serves_properties': [p for p in ('C16',) if p in claimed],
             'kind_free_text': 'native driver running the real VaporettoTokenizer through the Tantivy API (confirmation of token-stream counterexamples); built on demand'},
        ],
        'checks': checks,
        'not_applicable': not_applicable,
        'notes': ('Exit codes of ./check: 0 held, 1 confirmed violation (VIOLATION line), 2 inconclusive/broken. Known findings: known_findings.json. '
                  'quick: fixed job list, every path must be explored (otherwise exit 2). thorough: anytime exploration with a 20-minute budget per property '
                  '(quick jobs first, then larger bounds); when the budget is reached the evidence lists what was not explored (coverage.budget_limited_exploration). '
                  'Runs on modified trees can redirect the evidence file with VERIF_EVIDENCE_DIR.'),
    }
    json.dump(man, open(os.path.join(VERIF, 'MANIFEST.json'), 'w'), indent=1, ensure_ascii=False)
    print('claimed:', claimed)


if __name__ == '__main__':
    main()
