"""BTreeMap / HashMap / sets / RefCell models.

Maps are association lists with native key comparison.  Keys must be comparable: concrete keys
compare directly, symbolic keys fork on the comparison.  Iteration order: BTreeMap sorted,
hash maps in insertion order (stated in DESIGN.md; where order could matter the harness re-runs
with reversed order).
"""
import re
import functools
import z3

from values import *
from . import model, dyn
from .m_core import deref_all, values_eq, default_of
from engine import b_and, b_or, b_not


class MapObj(Opaque):
    def __init__(self, kind):
        Opaque.__init__(self, kind)
        self.items = []         # list of [key, Cell(value)]
        self.rt = kind
        self.reverse_iter = False

    def clone(self):
        m = MapObj(self.kind)
        m.items = [[deep_clone(k), Cell(deep_clone(c.v))] for k, c in self.items]
        m.reverse_iter = self.reverse_iter
        return m

    def ordered(self, e):
        if self.kind.startswith('BTree'):
            return sorted(self.items, key=functools.cmp_to_key(lambda x, y: key_cmp(e, x[0], y[0])))
        return list(reversed(self.items)) if self.reverse_iter else list(self.items)

    def ref_iter(self, e, ref):
        its = self.ordered(e)
        if self.kind.endswith('Set'):
            return Iter('vec_into', items=[Ref(Cell(k)) for k, c in its], i=0, j=len(its))
        return Iter('vec_into', items=[Agg([Ref(Cell(k)), Ref(c)]) for k, c in its], i=0, j=len(its))

    def into_iter(self, e):
        its = self.ordered(e)
        if self.kind.endswith('Set'):
            return Iter('vec_into', items=[k for k, c in its], i=0, j=len(its))
        return Iter('vec_into', items=[Agg([k, c.v]) for k, c in its], i=0, j=len(its))

    def __repr__(self):
        return '%s{%s}' % (self.kind, ', '.join('%r: %r' % (k, c.v) for k, c in self.items))


HASH_REVERSE = [False]      # harness switch: iterate hash maps in reverse insertion order


def new_map(kind):
    m = MapObj(kind)
    if kind.startswith('Hash'):
        m.reverse_iter = HASH_REVERSE[0]
    return m


def _norm_key(k):
    k = deref_all(k)
    if isinstance(k, StrRef):
        return k.bytes()
    if isinstance(k, Str):
        return k.b
    if isinstance(k, Enum) and k.ty == 'Cow':
        return _norm_key(k.f[0].v)
    if isinstance(k, SliceRef):
        return [c.v for c in k.cells()]
    if isinstance(k, Seq):
        return [c.v for c in k.e]
    if isinstance(k, Opaque) and k.kind in ('strbytes', 'bytevec'):
        from .m_seq import seq_values
        return seq_values(k)
    return k


def key_eq(e, a, b):
    a = _norm_key(a); b = _norm_key(b)
    if isinstance(a, list) and isinstance(b, list):
        if len(a) != len(b):
            return False
        for x, y in zip(a, b):
            if x is y:
                continue
            if not e.truth(values_eq(e, x, y)):
                return False
        return True
    return e.truth(values_eq(e, a, b))


def key_cmp(e, a, b):
    """three-way comparison -> -1/0/1 (forks on symbolic data)"""
    a = _norm_key(a); b = _norm_key(b)
    if isinstance(a, list) and isinstance(b, list):
        for x, y in zip(a, b):
            r = key_cmp(e, x, y)
            if r != 0:
                return r
        return (len(a) > len(b)) - (len(a) < len(b))
    if isinstance(a, Int) and isinstance(b, Int):
        if type(a.t) is int and type(b.t) is int:
            x = a.conc(); y = b.conc()
            return (x > y) - (x < y)
        if e.truth(e.binop('Lt', a, b)):
            return -1
        if e.truth(e.binop('Eq', a, b)):
            return 0
        return 1
    if isinstance(a, (Agg, Enum)) and isinstance(b, (Agg, Enum)):
        if isinstance(a, Enum) and a.var != b.var:
            ia = e.prog.enum_index(a.ty, a.var); ib = e.prog.enum_index(b.ty, b.var)
            return (ia > ib) - (ia < ib)
        for x, y in zip(a.f, b.f):
            r = key_cmp(e, x.v, y.v)
            if r != 0:
                return r
        return 0
    if isinstance(a, bool) and isinstance(b, bool):
        return (a > b) - (a < b)
    raise Unsupported('key_cmp %r %r' % (a, b))


def map_find(e, m, k):
    for ent in m.items:
        if key_eq(e, ent[0], k):
            return ent
    return None


def map_insert(e, m, k, v):
    ent = map_find(e, m, k)
    if ent is not None:
        old = ent[1].v; ent[1].v = v
        return some(old)
    m.items.append([own_key(k), Cell(v)])
    return none()


def own_key(k):
    return k


def map_of(x):
    while isinstance(x, Ref):
        x = x.c.v
    if isinstance(x, Agg) and x.ty == 'SerializableHashMap':
        return map_of(x.f[0].v)
    if isinstance(x, MapObj):
        return x
    raise Unsupported('map expected, got %r' % (x,))


_MAP = r'(?:std::collections::)?(?:hashbrown::)?(?:hash_map::)?(?:BTreeMap|HashMap|hashbrown::HashMap)'
_SET = r'(?:std::collections::)?(?:hashbrown::)?(?:BTreeSet|HashSet|hashbrown::HashSet)'


@model(_MAP + r'::<.*>::new|' + _MAP + r'::<.*>::with_hasher|' + _MAP + r'::<.*>::with_capacity|' + _MAP + r'::<.*>::with_capacity_and_hasher|' + _MAP + r'::<.*>::default')
def _map_new(e, c, a):
    return new_map('BTreeMap' if 'BTreeMap' in c.split('::<')[0] else 'HashMap')


@model(_SET + r'::<.*>::new|' + _SET + r'::<.*>::with_capacity|' + _SET + r'::<.*>::default|' + _SET + r'::<.*>::with_hasher')
def _set_new(e, c, a):
    return new_map('BTreeSet' if 'BTreeSet' in c.split('::<')[0] else 'HashSet')


@model(_MAP + r'::<.*>::insert')
def _map_insert(e, c, a):
    return map_insert(e, map_of(a[0]), a[1], a[2])


@model(_SET + r'::<.*>::insert')
def _set_insert(e, c, a):
    r = map_insert(e, map_of(a[0]), a[1], UNIT)
    return r.var == 'None'


@model(_SET + r'::<.*>::contains::<.*>|' + _MAP + r'::<.*>::contains_key::<.*>')
def _contains(e, c, a):
    return map_find(e, map_of(a[0]), a[1]) is not None


@model(_MAP + r'::<.*>::get::<.*>|' + _MAP + r'::<.*>::get_mut::<.*>')
def _map_get(e, c, a):
    ent = map_find(e, map_of(a[0]), a[1])
    return some(Ref(ent[1])) if ent is not None else none()


@model(_MAP + r'::<.*>::get_key_value::<.*>')
def _map_get_kv(e, c, a):
    ent = map_find(e, map_of(a[0]), a[1])
    return some(Agg([Ref(Cell(ent[0])), Ref(ent[1])])) if ent is not None else none()


@model(_MAP + r'::<.*>::remove::<.*>')
def _map_remove(e, c, a):
    m = map_of(a[0])
    ent = map_find(e, m, a[1])
    if ent is None:
        return none()
    m.items.remove(ent)
    return some(ent[1].v)


@model(_MAP + r'::<.*>::len|' + _SET + r'::<.*>::len')
def _map_len(e, c, a):
    return usize(len(map_of(a[0]).items))


@model(_MAP + r'::<.*>::is_empty|' + _SET + r'::<.*>::is_empty')
def _map_is_empty(e, c, a):
    return len(map_of(a[0]).items) == 0


@model(_MAP + r'::<.*>::clear|' + _SET + r'::<.*>::clear')
def _map_clear(e, c, a):
    del map_of(a[0]).items[:]
    return UNIT


@model(_MAP + r'::<.*>::iter|' + _MAP + r'::<.*>::iter_mut|' + _SET + r'::<.*>::iter')
def _map_iter(e, c, a):
    m = map_of(a[0])
    return m.ref_iter(e, a[0])


@model(_MAP + r'::<.*>::keys|' + _MAP + r'::<.*>::into_keys')
def _map_keys(e, c, a):
    its = map_of(a[0]).ordered(e)
    return Iter('vec_into', items=[(Ref(Cell(k)) if c.endswith('keys') and 'into' not in c else k) for k, v in its], i=0, j=len(its))


@model(_MAP + r'::<.*>::values|' + _MAP + r'::<.*>::values_mut|' + _MAP + r'::<.*>::into_values')
def _map_values(e, c, a):
    its = map_of(a[0]).ordered(e)
    return Iter('vec_into', items=[(v.v if 'into_values' in c else Ref(v)) for k, v in its], i=0, j=len(its))


@model(_MAP + r'::<.*>::entry')
def _map_entry(e, c, a):
    m = map_of(a[0])
    ent = map_find(e, m, a[1])
    return Opaque('entry', m=m, key=a[1], ent=ent)


@model(r'(?:std::collections::)?(?:btree_map|hash_map|hashbrown::hash_map)::Entry::<.*>::and_modify::<.*>')
def _entry_and_modify(e, c, a):
    en = a[0]
    if en.ent is not None:
        e.call_closure(a[1], [Ref(en.ent[1])])
    return en


@model(r'(?:std::collections::)?(?:btree_map|hash_map|hashbrown::hash_map)::Entry::<.*>::or_insert_with::<.*>|(?:std::collections::)?(?:btree_map|hash_map|hashbrown::hash_map)::Entry::<.*>::or_insert|(?:std::collections::)?(?:btree_map|hash_map|hashbrown::hash_map)::Entry::<.*>::or_default|(?:std::collections::)?(?:btree_map|hash_map|hashbrown::hash_map)::Entry::<.*>::or_insert_with_key::<.*>')
def _entry_or_insert(e, c, a):
    en = a[0]
    if en.ent is None:
        if 'or_insert_with' in c:
            v = e.call_closure(a[1], [])
        elif c.endswith('or_default'):
            m = re.search(r'Entry::<(.*)>::or_default$', c)
            from mirparse import split_top
            parts = [p for p in split_top(m.group(1)) if not p.startswith("'")]
            v = default_of(e, parts[1])
        else:
            v = a[1]
        en.ent = [en.key, Cell(v)]
        en.m.items.append(en.ent)
    return Ref(en.ent[1])


@model(r'<' + _MAP + r'<.*> as Index<.*>>::index')
def _map_index(e, c, a):
    ent = map_find(e, map_of(a[0]), a[1])
    if ent is None:
        raise Panic('HashMap/BTreeMap index: key not found')
    return Ref(ent[1])


@model(r'<' + _MAP + r'<.*> as Extend<.*>>::extend::<.*>|<' + _SET + r'<.*> as Extend<.*>>::extend::<.*>')
def _map_extend(e, c, a):
    from .m_iter import make_iter, drain
    m = map_of(a[0])
    for v in drain(e, make_iter(e, a[1])):
        if m.kind.endswith('Set'):
            map_insert(e, m, v, UNIT)
        else:
            map_insert(e, m, v.f[0].v, v.f[1].v)
    return UNIT


@model(r'<' + _MAP + r'<.*> as Clone>::clone|<' + _SET + r'<.*> as Clone>::clone')
def _map_clone(e, c, a):
    return map_of(a[0]).clone()


@model(r'<' + _MAP + r'<.*> as PartialEq>::eq')
def _map_eq(e, c, a):
    x, y = map_of(a[0]), map_of(a[1])
    if len(x.items) != len(y.items):
        return False
    r = True
    for k, v in x.items:
        ent = map_find(e, y, k)
        if ent is None:
            return False
        r = b_and(r, values_eq(e, v.v, ent[1].v))
    return r


# ---------------------------------------------------------------- RefCell
@model(r'RefCell::<.*>::new|std::cell::RefCell::<.*>::new|core::cell::RefCell::<.*>::new|Cell::<.*>::new|std::cell::Cell::<.*>::new')
def _refcell_new(e, c, a):
    return Opaque('refcell', cell=Cell(a[0]), rt='RefCell', borrows=0)


@model(r'RefCell::<.*>::borrow|RefCell::<.*>::borrow_mut|std::cell::RefCell::<.*>::borrow|std::cell::RefCell::<.*>::borrow_mut')
def _refcell_borrow(e, c, a):
    rc = deref_all(a[0])
    return Opaque('cellref', cell=rc.cell, rt='RefMut')


@model(r'<RefMut<.*> as Deref>::deref|<RefMut<.*> as DerefMut>::deref_mut|<Ref<.*> as Deref>::deref|<std::cell::Ref<.*> as Deref>::deref|<std::cell::RefMut<.*> as DerefMut>::deref_mut|<std::cell::RefMut<.*> as Deref>::deref')
def _cellref_deref(e, c, a):
    r = deref_all(a[0])
    return Ref(r.cell)


@model(r'RefCell::<.*>::into_inner|std::cell::RefCell::<.*>::into_inner')
def _refcell_into_inner(e, c, a):
    return a[0].cell.v


@model(r'RefCell::<.*>::get_mut')
def _refcell_get_mut(e, c, a):
    return Ref(deref_all(a[0]).cell)
