"""daachorse 1.0.1 by contract (DESIGN.md appendix B).

new(patterns): value of a pattern = its index; Err when the list is empty, a pattern is empty, or
patterns are duplicated.  find_overlapping_iter: every occurrence of every pattern ordered by end
position (longest first per end position).  find_overlapping_no_suffix_iter: per end position, in
increasing order, the longest pattern ending there.  Match::{start,end} are byte offsets.
serialize/deserialize_unchecked: an opaque token carrying the automaton.
"""
import re
import z3

from values import *
from . import model, dyn
from .m_core import deref_all
from .m_str import decode_char, char_width, str_bytes
from .m_seq import seq_values
from .m_iter import make_iter, drain
from engine import b_and


class Pma(Opaque):
    def __init__(self, charwise, pats):
        Opaque.__init__(self, 'pma')
        self.charwise = charwise
        self.pats = pats            # list of element lists (char Ints / byte Ints)
        self.rt = 'Pma'

    def clone(self):
        return self


def elems_of_pattern(e, p, charwise):
    p = deref_all(p)
    if charwise:
        bs = str_bytes(p)
        out = []
        i = 0
        while i < len(bs):
            c, w = decode_char(e, bs, i)
            out.append(c); i += w
        return out
    if isinstance(p, (Str, StrRef)):
        return list(str_bytes(p))
    return seq_values(p)


def elem_eq(e, x, y):
    """python bool: two elements are equal on this path (forks when undecided; memoised per path)"""
    if x is y:
        return True
    tx, ty = x.t, y.t
    if type(tx) is int and type(ty) is int:
        return tx == ty
    key = (tx if type(tx) is int else tx.get_id(), ty if type(ty) is int else ty.get_id())
    memo = e.path_memo
    ent = memo.get(key)
    if ent is None:
        r = e.truth(e.binop('Eq', Int(tx, x.bits), Int(ty, y.bits)))
        # keep the terms alive: z3 AST ids are only unique among live terms
        memo[key] = (r, tx, ty); memo[(key[1], key[0])] = (r, tx, ty)
        return r
    return ent[0]


def pats_equal(e, p, q):
    if len(p) != len(q):
        return False
    return all(elem_eq(e, a, b) for a, b in zip(p, q))


@model(r'(?:daachorse::)?(?:charwise::)?(Charwise)?DoubleArrayAhoCorasick::<.*>::new::<.*>', 'daachorse::new (contract)')
def _pma_new(e, c, a):
    charwise = 'Charwise' in c.split('::<')[0]
    items = drain(e, make_iter(e, a[0]))
    pats = [elems_of_pattern(e, p, charwise) for p in items]
    if not pats:
        return err(Agg([], ty='DaachorseError'))
    for p in pats:
        if not p:
            return err(Agg([], ty='DaachorseError'))
    for i in range(len(pats)):
        for j in range(i):
            if pats_equal(e, pats[i], pats[j]):
                return err(Agg([], ty='DaachorseError'))
    return ok(Pma(charwise, pats))


def haystack_elems(e, pma, h):
    """-> (elements, byte offset after each element)"""
    h = deref_all(h)
    if pma.charwise:
        bs = str_bytes(h)
        out = []; offs = []
        i = 0
        while i < len(bs):
            c, w = decode_char(e, bs, i)
            out.append(c); i += w; offs.append(i)
        return out, offs
    if isinstance(h, (Str, StrRef)):
        bs = list(str_bytes(h))
    else:
        bs = seq_values(h)
    return bs, list(range(1, len(bs) + 1))


def match_at(e, pat, hs, end):
    """does pattern `pat` occur in hs ending at element index `end` (exclusive)"""
    n = len(pat)
    if n > end:
        return False
    for k in range(1, n + 1):       # compare from the last element backwards (suffix sharing)
        if not elem_eq(e, hs[end - k], pat[n - k]):
            return False
    return True


def mk_match(start, end, value):
    return Opaque('match', start=start, end=end, value=value, rt='Match')


@model(r'(?:daachorse::)?(?:charwise::)?(Charwise)?DoubleArrayAhoCorasick::<.*>::find_overlapping_no_suffix_iter::<.*>', 'daachorse::find_overlapping_no_suffix_iter (contract)')
def _no_suffix_iter(e, c, a):
    pma = deref_all(a[0])
    hs, offs = haystack_elems(e, pma, a[1])
    order = sorted(range(len(pma.pats)), key=lambda i: -len(pma.pats[i]))
    out = []
    for end in range(1, len(hs) + 1):
        for i in order:
            pat = pma.pats[i]
            if match_at(e, pat, hs, end):
                sidx = end - len(pat)
                out.append(mk_match(offs[sidx - 1] if sidx > 0 else 0, offs[end - 1], i))
                break
    return Iter('vec_into', items=out, i=0, j=len(out))


@model(r'(?:daachorse::)?(?:charwise::)?(Charwise)?DoubleArrayAhoCorasick::<.*>::find_overlapping_iter::<.*>', 'daachorse::find_overlapping_iter (contract)')
def _overlapping_iter(e, c, a):
    pma = deref_all(a[0])
    hs, offs = haystack_elems(e, pma, a[1])
    order = sorted(range(len(pma.pats)), key=lambda i: -len(pma.pats[i]))
    out = []
    for end in range(1, len(hs) + 1):
        for i in order:
            pat = pma.pats[i]
            if match_at(e, pat, hs, end):
                sidx = end - len(pat)
                out.append(mk_match(offs[sidx - 1] if sidx > 0 else 0, offs[end - 1], i))
    return Iter('vec_into', items=out, i=0, j=len(out))


@model(r'daachorse::Match::<.*>::end|Match::<.*>::end')
def _m_end(e, c, a):
    return usize(deref_all(a[0]).end)


@model(r'daachorse::Match::<.*>::start|Match::<.*>::start')
def _m_start(e, c, a):
    return usize(deref_all(a[0]).start)


@model(r'daachorse::Match::<.*>::value|Match::<.*>::value')
def _m_value(e, c, a):
    m = re.search(r'Match::<(.*)>::value$', c)
    ty = m.group(1)
    v = deref_all(a[0]).value
    if ty == 'u32':
        return Int(v, 32)
    if ty == 'usize':
        return Int(v, 64)
    return e.call('<%s as From<usize>>::from' % ty, [usize(v)]) if ty not in ('DummyValue',) else Agg([], ty='DummyValue')


@model(r'(?:daachorse::)?(?:charwise::)?(Charwise)?DoubleArrayAhoCorasick::<.*>::serialize', 'daachorse::serialize (opaque token)')
def _pma_serialize(e, c, a):
    pma = deref_all(a[0])
    return Seq([Opaque('pma_token', pma=pma, rt='u8')], elt='u8')


@model(r'(?:daachorse::)?(?:charwise::)?(Charwise)?DoubleArrayAhoCorasick::<.*>::deserialize_unchecked', 'daachorse::deserialize_unchecked (opaque token) + precondition')
def _pma_deserialize(e, c, a):
    vals = seq_values(a[0])
    e.stub_hit('precondition:deserialize_unchecked(self-produced bytes)')
    if len(vals) < 1 or not (isinstance(vals[0], Opaque) and vals[0].kind == 'pma_token'):
        raise Panic('UB: deserialize_unchecked on bytes that were not produced by serialize()', 'ub')
    tok = vals[0]
    want_charwise = 'Charwise' in c.split('::<')[0]
    if tok.pma.charwise != want_charwise:
        raise Panic('UB: deserialize_unchecked: automaton kind mismatch', 'ub')
    from .m_seq import sub_slice
    return Agg([tok.pma, sub_slice(e, a[0], 1, len(vals))])
