"""str / String / char / Cow<str> models.

Strings are byte lists; a byte remembers (char Int, index, width) of the character it encodes, so
decode(encode(c)) is structural.  A symbolic character forks once into its UTF-8 width class.
"""
import re
import z3

from values import *
from . import model, dyn
from .m_core import deref_all, values_eq, bytes_eq
from engine import b_and, b_or, b_not


# ---------------------------------------------------------------- chars <-> bytes
def char_width(e, c):
    """UTF-8 width of a char Int (forks when symbolic and not yet known)"""
    t = c.t
    if type(t) is int:
        return 1 if t < 0x80 else 2 if t < 0x800 else 3 if t < 0x10000 else 4
    if c.org is not None and c.org[0] == 'char' and len(c.org) > 1:
        return c.org[1]
    k = e.branch([z3.ULT(t, 0x80), z3.And(z3.UGE(t, 0x80), z3.ULT(t, 0x800)),
                  z3.And(z3.UGE(t, 0x800), z3.ULT(t, 0x10000)), z3.UGE(t, 0x10000)])
    c.org = ('char', k + 1)
    return k + 1


def encode_char(e, c):
    t = c.t
    if type(t) is int:
        bs = chr(t).encode('utf-8') if t < 0xD800 or t > 0xDFFF else None
        if bs is None:
            raise Panic('UB: surrogate code point as char', 'ub')
        return [Int(b, 8, False, (c, i, len(bs))) for i, b in enumerate(bs)]
    w = char_width(e, c)
    ex = lambda hi, lo: z3.Extract(hi, lo, t)
    if w == 1:
        terms = [ex(7, 0)]
    elif w == 2:
        terms = [z3.Concat(z3.BitVecVal(0b110, 3), ex(10, 6)), z3.Concat(z3.BitVecVal(0b10, 2), ex(5, 0))]
    elif w == 3:
        terms = [z3.Concat(z3.BitVecVal(0b1110, 4), ex(15, 12)), z3.Concat(z3.BitVecVal(0b10, 2), ex(11, 6)),
                 z3.Concat(z3.BitVecVal(0b10, 2), ex(5, 0))]
    else:
        terms = [z3.Concat(z3.BitVecVal(0b11110, 5), ex(20, 18)), z3.Concat(z3.BitVecVal(0b10, 2), ex(17, 12)),
                 z3.Concat(z3.BitVecVal(0b10, 2), ex(11, 6)), z3.Concat(z3.BitVecVal(0b10, 2), ex(5, 0))]
    return [Int(x, 8, False, (c, i, w)) for i, x in enumerate(terms)]


def decode_char(e, bs, i):
    """decode the char starting at byte index i of list bs -> (char Int, width)"""
    b0 = bs[i]
    o = b0.org
    if o is not None and o[1] == 0:
        c, _, w = o
        ok_ = True
        for j in range(1, w):
            if i + j >= len(bs):
                ok_ = False; break
            oj = bs[i + j].org
            if oj is None or oj[0] is not c or oj[1] != j:
                ok_ = False; break
        if ok_:
            return c, w
    t0 = b0.t
    if type(t0) is int:
        w = 1 if t0 < 0x80 else 2 if t0 < 0xE0 else 3 if t0 < 0xF0 else 4
        if 0x80 <= t0 < 0xC0:
            raise Panic('UB: str is not valid UTF-8 (continuation byte at char start)', 'ub')
    else:
        w = 1 + e.branch([z3.ULT(t0, 0x80), z3.And(z3.UGE(t0, 0xC0), z3.ULT(t0, 0xE0)),
                          z3.And(z3.UGE(t0, 0xE0), z3.ULT(t0, 0xF0)), z3.UGE(t0, 0xF0)])
    if i + w > len(bs):
        raise Panic('UB: str is not valid UTF-8 (truncated sequence)', 'ub')
    if all(type(bs[i + j].t) is int for j in range(w)):
        raw = bytes(bs[i + j].t for j in range(w))
        try:
            ch = raw.decode('utf-8')
        except UnicodeDecodeError:
            raise Panic('UB: str is not valid UTF-8', 'ub')
        return Int(ord(ch), 32, False, ('char', w)), w
    z = [bs[i + j].z() for j in range(w)]
    ze = lambda t, n: z3.ZeroExt(32 - n, t)
    if w == 1:
        t = ze(z[0], 8)
    elif w == 2:
        t = ze(z3.Concat(z3.Extract(4, 0, z[0]), z3.Extract(5, 0, z[1])), 11)
    elif w == 3:
        t = ze(z3.Concat(z3.Extract(3, 0, z[0]), z3.Extract(5, 0, z[1]), z3.Extract(5, 0, z[2])), 16)
    else:
        t = ze(z3.Concat(z3.Extract(2, 0, z[0]), z3.Extract(5, 0, z[1]), z3.Extract(5, 0, z[2]), z3.Extract(5, 0, z[3])), 21)
    return Int(z3.simplify(t), 32, False, ('char', w)), w


def is_char_boundary(e, bs, i):
    if i == 0 or i == len(bs):
        return True
    if i > len(bs):
        return False
    b = bs[i]
    if b.org is not None:
        return b.org[1] == 0
    if type(b.t) is int:
        return b.t < 0x80 or b.t >= 0xC0
    return e.truth(z3.Or(z3.ULT(b.t, 0x80), z3.UGE(b.t, 0xC0)))


def utf8_valid(e, bs):
    """is the byte list valid UTF-8 (structurally, via origins; concrete bytes are decoded)"""
    i = 0
    n = len(bs)
    while i < n:
        b = bs[i]
        o = b.org
        if o is not None:
            if o[1] != 0:
                return False
            c, _, w = o
            for j in range(1, w):
                if i + j >= n or bs[i + j].org is None or bs[i + j].org[0] is not c or bs[i + j].org[1] != j:
                    return False
            i += w
            continue
        if type(b.t) is int:
            if b.t < 0x80:
                i += 1; continue
            w = 2 if 0xC2 <= b.t < 0xE0 else 3 if 0xE0 <= b.t < 0xF0 else 4 if 0xF0 <= b.t < 0xF5 else 0
            if w == 0 or i + w > n or not all(type(bs[i + j].t) is int for j in range(w)):
                return False
            try:
                bytes(bs[i + j].t for j in range(w)).decode('utf-8')
            except UnicodeDecodeError:
                return False
            i += w
            continue
        # symbolic byte without origin: must be ASCII to be surely valid; fork
        if e.truth(z3.ULT(b.t, 0x80)):
            i += 1; continue
        return False
    return True


def str_bytes(x):
    x0 = x
    while isinstance(x, Ref):
        x = x.c.v
    if isinstance(x, StrRef):
        return x.bytes()
    if isinstance(x, Str):
        return x.b
    if isinstance(x, Enum) and x.ty == 'Cow':
        return str_bytes(x.f[0].v)
    raise Unsupported('str_bytes of %r' % (x0,))


def as_strref_any(x):
    while isinstance(x, Ref):
        x = x.c.v
    if isinstance(x, StrRef):
        return x
    if isinstance(x, Str):
        return StrRef(x, 0, len(x.b))
    if isinstance(x, Enum) and x.ty == 'Cow':
        return as_strref_any(x.f[0].v)
    raise Unsupported('as_strref of %r' % (x,))


def string_obj(x):
    while isinstance(x, Ref):
        x = x.c.v
    if isinstance(x, Str):
        return x
    raise Unsupported('String expected, got %r' % (x,))


def py_str(e, x):
    """concrete python string of a str value (Unsupported if symbolic)"""
    bs = str_bytes(x)
    out = bytearray()
    for b in bs:
        v = b.conc()
        if v is None:
            raise Unsupported('concrete string required')
        out.append(v)
    return out.decode('utf-8')


# ---------------------------------------------------------------- str
@model(r'core::str::<impl str>::is_empty|String::is_empty')
def _s_is_empty(e, c, a):
    return len(str_bytes(a[0])) == 0


@model(r'core::str::<impl str>::len|String::len')
def _s_len(e, c, a):
    return usize(len(str_bytes(a[0])))


@model(r'core::str::<impl str>::as_bytes|String::as_bytes')
def _s_as_bytes(e, c, a):
    r = as_strref_any(a[0])
    return Opaque('strbytes', s=r.s, lo=r.lo, hi=r.hi, rt='[]')


@model(r'core::str::<impl str>::chars')
def _s_chars(e, c, a):
    r = as_strref_any(a[0])
    return Iter('chars', bs=r.bytes(), i=0, j=len(r))


@model(r'core::str::<impl str>::char_indices')
def _s_char_indices(e, c, a):
    r = as_strref_any(a[0])
    return Iter('char_indices', bs=r.bytes(), i=0, j=len(r))


@model(r'core::str::<impl str>::bytes')
def _s_bytes(e, c, a):
    r = as_strref_any(a[0])
    return Iter('vec_into', items=list(r.bytes()), i=0, j=len(r))


@model(r'core::str::<impl str>::is_char_boundary')
def _s_icb(e, c, a):
    return is_char_boundary(e, str_bytes(a[0]), e.concretize(a[1], 4096))


@model(r'core::str::<impl str>::to_string|<str as ToString>::to_string|<String as ToString>::to_string|core::str::<impl str>::to_owned|<str as ToOwned>::to_owned|<String as From<&str>>::from|<String as From<&String>>::from|<&str as Into<String>>::into|<&String as Into<String>>::into|String::from_str|<String as Clone>::clone|<&str as ToString>::to_string|<String as From<&mut str>>::from|core::str::<impl str>::into_string|<str as Into<String>>::into|<String as From<Cow<.*>>>::from|<Cow<.*str> as Into<String>>::into|Cow::<.*str>::into_owned|<Cow<.*str> as ToString>::to_string', 'str -> String')
def _s_to_string(e, c, a):
    return Str(list(str_bytes(a[0])))


@model(r'<String as Into<String>>::into|<String as From<String>>::from')
def _string_ident(e, c, a):
    return a[0]


@model(r'<char as ToString>::to_string|<String as From<char>>::from|<char as Into<String>>::into')
def _char_to_string(e, c, a):
    return Str(encode_char(e, deref_all(a[0])))


@model(r'<str as PartialEq>::eq|<String as PartialEq>::eq|<String as PartialEq<.*>>::eq|<str as PartialEq<.*>>::eq|<&str as PartialEq<.*>>::eq|<&str as PartialEq>::eq|<Cow<.*str> as PartialEq<.*>>::eq|<Cow<.*str> as PartialEq>::eq|<&String as PartialEq<.*>>::eq', 'str ==')
def _s_eq(e, c, a):
    return bytes_eq(e, str_bytes(a[0]), str_bytes(a[1]))


@model(r'<str as PartialEq>::ne|<String as PartialEq>::ne|<String as PartialEq<.*>>::ne|<str as PartialEq<.*>>::ne|<&str as PartialEq<.*>>::ne|<&str as PartialEq>::ne|<Cow<.*str> as PartialEq<.*>>::ne')
def _s_ne(e, c, a):
    return b_not(bytes_eq(e, str_bytes(a[0]), str_bytes(a[1])))


def str_slice(e, r, lo, hi, what='str'):
    bs = r.bytes()
    if lo > hi or hi > len(bs):
        raise Panic('%s slice index out of range: [%d..%d] of len %d' % (what, lo, hi, len(bs)))
    if not is_char_boundary(e, bs, lo) or not is_char_boundary(e, bs, hi):
        raise Panic('%s slice index is not a char boundary: [%d..%d]' % (what, lo, hi))
    return StrRef(r.s, r.lo + lo, r.lo + hi)


def range_bounds(e, rng, n):
    """rng: Agg Range/RangeFrom/RangeTo/RangeFull/RangeInclusive -> (lo, hi) concrete"""
    ty = rng.ty
    if ty == 'Range':
        return e.concretize(rng.f[0].v, 4096), e.concretize(rng.f[1].v, 4096)
    if ty == 'RangeFrom':
        return e.concretize(rng.f[0].v, 4096), n
    if ty == 'RangeTo':
        return 0, e.concretize(rng.f[0].v, 4096)
    if ty == 'RangeFull':
        return 0, n
    if ty == 'RangeInclusive':
        return e.concretize(rng.f[0].v, 4096), e.concretize(rng.f[1].v, 4096) + 1
    if ty == 'RangeToInclusive':
        return 0, e.concretize(rng.f[0].v, 4096) + 1
    raise Unsupported('range type %r' % (rng,))


@model(r'<str as Index<.*>>::index|<String as Index<.*>>::index|<str as IndexMut<.*>>::index_mut|core::str::traits::<impl Index<.*> for str>::index', 'str[range]')
def _s_index(e, c, a):
    r = as_strref_any(a[0])
    lo, hi = range_bounds(e, a[1], len(r))
    return str_slice(e, r, lo, hi)


@model(r'core::str::<impl str>::get::<.*>')
def _s_get(e, c, a):
    r = as_strref_any(a[0])
    lo, hi = range_bounds(e, a[1], len(r))
    bs = r.bytes()
    if lo > hi or hi > len(bs) or not is_char_boundary(e, bs, lo) or not is_char_boundary(e, bs, hi):
        return none()
    return some(StrRef(r.s, r.lo + lo, r.lo + hi))


@model(r'core::str::<impl str>::get_unchecked::<.*>')
def _s_get_unchecked(e, c, a):
    r = as_strref_any(a[0])
    lo, hi = range_bounds(e, a[1], len(r))
    bs = r.bytes()
    e.stub_hit('precondition:str::get_unchecked')
    if lo > hi or hi > len(bs) or not is_char_boundary(e, bs, lo) or not is_char_boundary(e, bs, hi):
        raise Panic('UB: str::get_unchecked(%d..%d) out of range / not on char boundary (len %d)' % (lo, hi, len(bs)), 'ub')
    return StrRef(r.s, r.lo + lo, r.lo + hi)


@model(r'core::str::<impl str>::starts_with::<.*>|core::str::<impl str>::ends_with::<.*>')
def _s_starts_with(e, c, a):
    bs = str_bytes(a[0])
    pat = a[1]
    if isinstance(deref_all(pat), Int):
        pb = encode_char(e, deref_all(pat))
    else:
        pb = str_bytes(pat)
    if len(pb) > len(bs):
        return False
    seg = bs[:len(pb)] if 'starts_with' in c else bs[len(bs) - len(pb):]
    return bytes_eq(e, seg, pb)


@model(r'core::str::<impl str>::split::<.*>|core::str::<impl str>::split_whitespace|core::str::<impl str>::lines|core::str::<impl str>::trim.*|core::str::<impl str>::parse::<.*>|core::str::<impl str>::find::<.*>|core::str::<impl str>::contains::<.*>|core::str::<impl str>::replace::<.*>|core::str::<impl str>::split_once::<.*>|core::str::<impl str>::rsplit.*|core::str::<impl str>::strip_prefix::<.*>|core::str::<impl str>::strip_suffix::<.*>|core::str::<impl str>::to_lowercase|core::str::<impl str>::to_uppercase', 'str text utilities (concrete strings only)')
def _s_textutils(e, c, a):
    meth = re.match(r'core::str::<impl str>::(\w+)', c).group(1)
    r = as_strref_any(a[0])
    s = py_str(e, r)

    def sub(lo_chars, hi_chars):
        lo = len(s[:lo_chars].encode('utf-8')); hi = len(s[:hi_chars].encode('utf-8'))
        return StrRef(r.s, r.lo + lo, r.lo + hi)
    if meth == 'trim':
        t = s.strip(); k = s.find(t) if t else 0
        return sub(k, k + len(t))
    if meth == 'split':
        pat = deref_all(a[1])
        p = chr(pat.conc()) if isinstance(pat, Int) else py_str(e, pat)
        parts = []; pos = 0
        for piece in s.split(p):
            parts.append(sub(pos, pos + len(piece))); pos += len(piece) + len(p)
        return Iter('vec_into', items=parts, i=0, j=len(parts))
    if meth == 'contains':
        pat = deref_all(a[1])
        p = chr(pat.conc()) if isinstance(pat, Int) else py_str(e, pat)
        return p in s
    if meth == 'parse':
        ty = re.search(r'parse::<(.*)>$', c).group(1)
        from engine import int_ty
        it = int_ty(ty)
        if it and re.fullmatch(r'[+-]?\d+', s):
            v = int(s)
            lo, hi = (-(1 << (it[0] - 1)), (1 << (it[0] - 1)) - 1) if it[1] else (0, (1 << it[0]) - 1)
            if lo <= v <= hi and not (not it[1] and s.startswith('-')):
                return ok(Int(v, it[0], it[1]))
        if it:
            return err(Agg([], ty='ParseIntError'))
        if ty in ('f64', 'f32'):
            # Rust's float grammar: optional sign, digits with optional fraction / exponent, or inf / infinity / nan (case-insensitive); no surrounding blanks, no '_'
            if not re.fullmatch(r'[+-]?(?:(?:\d+\.?\d*|\.\d+)(?:[eE][+-]?\d+)?|(?i:inf|infinity|nan))', s):
                return err(Agg([], ty='ParseFloatError'))
            x = float(s)
            if ty == 'f32':
                import struct
                try:
                    x = struct.unpack('<f', struct.pack('<f', x))[0]       # round to nearest single (ties to even), kept as the exact double of that single
                except OverflowError:
                    x = float('inf') if x > 0 else float('-inf')
            return ok(Float(x))
        return e.call('<%s as FromStr>::from_str' % ty, [r])
    raise Unsupported('str::' + meth)


@model(r'core::str::from_utf8|std::str::from_utf8|String::from_utf8')
def _from_utf8(e, c, a):
    v = a[0]
    if isinstance(v, Seq):
        bs = [cl.v for cl in v.e]
    elif isinstance(v, SliceRef):
        bs = [cl.v for cl in v.cells()]
    elif isinstance(v, Opaque) and v.kind == 'strbytes':
        bs = v.s.b[v.lo:v.hi]
    else:
        raise Unsupported('from_utf8 of %r' % (v,))
    if utf8_valid(e, bs):
        s = Str(list(bs))
        return ok(s if 'String' in c else StrRef(s, 0, len(bs)))
    return err(Agg([], ty='FromUtf8Error' if 'String' in c else 'Utf8Error'))


@model(r'core::str::from_utf8_unchecked|std::str::from_utf8_unchecked|String::from_utf8_unchecked')
def _from_utf8_unchecked(e, c, a):
    v = a[0]
    if isinstance(v, Seq):
        bs = [cl.v for cl in v.e]
    elif isinstance(v, SliceRef):
        bs = [cl.v for cl in v.cells()]
    elif isinstance(v, Opaque) and v.kind == 'strbytes':
        bs = v.s.b[v.lo:v.hi]
    else:
        raise Unsupported('from_utf8_unchecked of %r' % (v,))
    e.stub_hit('precondition:from_utf8_unchecked')
    if not utf8_valid(e, bs):
        raise Panic('UB: from_utf8_unchecked on invalid UTF-8', 'ub')
    s = Str(list(bs))
    return s if 'String' in c else StrRef(s, 0, len(bs))


# ---------------------------------------------------------------- String
@model(r'String::new|String::with_capacity')
def _string_new(e, c, a):
    return Str()


@model(r'String::clear')
def _string_clear(e, c, a):
    del string_obj(a[0]).b[:]
    return UNIT


@model(r'String::push')
def _string_push(e, c, a):
    string_obj(a[0]).b.extend(encode_char(e, a[1]))
    return UNIT


@model(r'String::push_str|<String as Extend<&str>>::extend|<String as AddAssign<&str>>::add_assign')
def _string_push_str(e, c, a):
    string_obj(a[0]).b.extend(str_bytes(a[1]))
    return UNIT


@model(r'String::pop')
def _string_pop(e, c, a):
    s = string_obj(a[0])
    if not s.b:
        return none()
    # find start of last char
    k = len(s.b) - 1
    while k > 0 and not is_char_boundary(e, s.b, k):
        k -= 1
    ch, w = decode_char(e, s.b, k)
    del s.b[k:]
    return some(ch)


@model(r'String::truncate')
def _string_truncate(e, c, a):
    s = string_obj(a[0]); n = e.concretize(a[1], 4096)
    if n <= len(s.b):
        if not is_char_boundary(e, s.b, n):
            raise Panic('String::truncate: not a char boundary')
        del s.b[n:]
    return UNIT


@model(r'String::as_str|<String as Deref>::deref|<String as AsRef<str>>::as_ref|String::as_mut_str|<String as DerefMut>::deref_mut|<String as Borrow<str>>::borrow|<str as AsRef<str>>::as_ref|<&str as AsRef<str>>::as_ref|<&String as AsRef<str>>::as_ref|<Cow<.*str> as Deref>::deref|<Cow<.*str> as AsRef<str>>::as_ref|<Cow<.*str> as Borrow<str>>::borrow|<&&str as AsRef<str>>::as_ref|<&mut String as AsRef<str>>::as_ref|<Box<str> as Deref>::deref', 'String/Cow -> &str')
def _string_as_str(e, c, a):
    return as_strref_any(a[0])


@model(r'<String as AsRef<\[u8\]>>::as_ref|<str as AsRef<\[u8\]>>::as_ref|<&str as AsRef<\[u8\]>>::as_ref')
def _string_as_bytes(e, c, a):
    r = as_strref_any(a[0])
    return Opaque('strbytes', s=r.s, lo=r.lo, hi=r.hi, rt='[]')


@model(r'String::into_bytes')
def _string_into_bytes(e, c, a):
    return Seq(list(a[0].b), elt='u8')


@model(r'String::as_mut_vec')
def _string_as_mut_vec(e, c, a):
    # unsafe: the caller must keep the buffer valid UTF-8.  The obligation is checked when the String is
    # next *read as a str* through check_utf8_obligations() (harness) — the byte vector view shares storage.
    s = string_obj(a[0])
    e.stub_hit('unsafe:String::as_mut_vec')
    return Ref(Cell(Opaque('bytevec', s=s, rt='Vec')))


@model(r'String::capacity|String::reserve|String::shrink_to_fit|String::reserve_exact')
def _string_cap(e, c, a):
    return usize(len(string_obj(a[0]).b)) if c.endswith('capacity') else UNIT


@model(r'<String as FromIterator<char>>::from_iter::<.*>|<String as FromIterator<&str>>::from_iter::<.*>|<String as FromIterator<String>>::from_iter::<.*>')
def _string_from_iter(e, c, a):
    from .m_iter import iter_next, make_iter
    it = make_iter(e, a[0])
    s = Str()
    while True:
        r = iter_next(e, it)
        if r.var == 'None':
            return s
        v = deref_all(r.f[0].v)
        if isinstance(v, Int):
            s.b.extend(encode_char(e, v))
        else:
            s.b.extend(str_bytes(v))


@model(r'<String as Hash>::hash::<.*>|<str as Hash>::hash::<.*>')
def _string_hash(e, c, a):
    return UNIT


@model(r'<String as PartialOrd>::partial_cmp|<String as Ord>::cmp|<str as Ord>::cmp|<str as PartialOrd>::partial_cmp')
def _string_cmp(e, c, a):
    from .m_map import key_cmp
    r = key_cmp(e, deref_all(a[0]), deref_all(a[1]))
    v = Int(r, 8, True)
    return some(v) if 'partial_cmp' in c else v


# ---------------------------------------------------------------- char
@model(r'char::methods::<impl char>::len_utf8')
def _len_utf8(e, c, a):
    return usize(char_width(e, a[0]))


@model(r'<u32 as From<char>>::from|<char as Into<u32>>::into')
def _u32_from_char(e, c, a):
    return Int(a[0].t, 32)


@model(r'char::methods::<impl char>::(is_ascii_digit|is_ascii|is_whitespace|is_ascii_alphabetic|is_alphabetic|is_numeric|is_ascii_whitespace|to_digit|is_ascii_uppercase|is_ascii_lowercase)')
def _char_preds(e, c, a):
    meth = c.rsplit('::', 1)[1]
    ch = deref_all(a[0])
    if meth == 'is_ascii':
        return e.binop('Lt', ch, Int(0x80, 32))
    if meth == 'is_ascii_digit':
        return b_and(e.binop('Ge', ch, Int(0x30, 32)), e.binop('Le', ch, Int(0x39, 32)))
    v = ch.conc()
    if v is None:
        raise Unsupported('char::%s on symbolic char' % meth)
    s = chr(v)
    if meth == 'is_whitespace':
        return s.isspace()
    if meth == 'to_digit':
        radix = e.concretize(a[1])
        try:
            d = int(s, radix)
            return some(Int(d, 32))
        except ValueError:
            return none()
    return getattr(s, {'is_ascii_alphabetic': 'isalpha', 'is_alphabetic': 'isalpha', 'is_numeric': 'isnumeric',
                       'is_ascii_whitespace': 'isspace', 'is_ascii_uppercase': 'isupper', 'is_ascii_lowercase': 'islower'}[meth])()


@model(r'core::num::<impl u8>::(is_ascii|is_ascii_digit|is_ascii_alphabetic|is_ascii_whitespace|is_ascii_uppercase|is_ascii_lowercase|is_ascii_alphanumeric|is_ascii_punctuation|is_utf8_char_boundary)')
def _u8_preds(e, c, a):
    meth = c.rsplit('::', 1)[1]
    b = deref_all(a[0])
    b8 = Int(b.t, 8)
    if meth == 'is_ascii':
        return e.binop('Lt', b8, Int(0x80, 8))
    if meth == 'is_utf8_char_boundary':
        return b_or(e.binop('Lt', b8, Int(0x80, 8)), e.binop('Ge', b8, Int(0xC0, 8)))
    if meth == 'is_ascii_digit':
        return b_and(e.binop('Ge', b8, Int(0x30, 8)), e.binop('Le', b8, Int(0x39, 8)))
    v = e.concretize(b8, 256)
    ch = chr(v)
    if v >= 0x80:
        return False
    import string
    return {'is_ascii_alphabetic': ch.isalpha(), 'is_ascii_whitespace': ch in ' \t\n\x0c\r', 'is_ascii_uppercase': ch.isupper(), 'is_ascii_lowercase': ch.islower(),
            'is_ascii_alphanumeric': ch.isalnum(), 'is_ascii_punctuation': ch in string.punctuation}[meth]


# ---------------------------------------------------------------- Cow<str>
@model(r'Cow::<.*str>::to_mut')
def _cow_to_mut(e, c, a):
    cell = a[0].c; cow = cell.v
    if cow.var == 'Borrowed':
        cell.v = Enum('Owned', [Str(list(str_bytes(cow.f[0].v)))], 'Cow')
    return Ref(cell.v.f[0])


@model(r'<.* as Into<Cow<.*str>>>::into|<Cow<.*str> as From<.*>>::from', 'Into<Cow<str>>')
def _into_cow(e, c, a):
    x = a[0]
    if isinstance(x, Str):
        return Enum('Owned', [x], 'Cow')
    if isinstance(x, StrRef):
        return Enum('Borrowed', [x], 'Cow')
    if isinstance(x, Ref) and isinstance(x.c.v, Str):
        return Enum('Borrowed', [StrRef(x.c.v, 0, len(x.c.v.b))], 'Cow')
    if isinstance(x, Enum) and x.ty == 'Cow':
        return x
    raise Unsupported('Into<Cow<str>> of %r' % (x,))


@model(r'<Cow<.*str> as Clone>::clone')
def _cow_clone(e, c, a):
    cow = deref_all(a[0])
    if cow.var == 'Borrowed':
        return Enum('Borrowed', [cow.f[0].v], 'Cow')
    return Enum('Owned', [Str(list(cow.f[0].v.b))], 'Cow')


# ---------------------------------------------------------------- unicode-segmentation (nondeterministic contract)
@model(r'<str as UnicodeSegmentation>::graphemes|unicode_segmentation::UnicodeSegmentation::graphemes', 'unicode-segmentation graphemes (nondeterministic: any non-empty prefix on a char boundary)')
def _graphemes(e, c, a):
    r = as_strref_any(a[0])
    bs = r.bytes()
    offs = [0]
    i = 0
    while i < len(bs):
        ch, w = decode_char(e, bs, i)
        i += w; offs.append(i)

    plan = getattr(e, 'grapheme_plan', None)

    def nextfn(e_, it):
        if it.k >= len(offs) - 1:
            return none()
        if callable(plan):
            k2 = plan(it.k, offs)
            lo = offs[it.k]; hi = offs[k2]
            it.k = k2
            e_.stub_hit('grapheme oracle consulted')
            return some(StrRef(r.s, r.lo + lo, r.lo + hi))
        if plan is not None:
            # the harness fixed one segmentation of this text beforehand (any segmentation consistent with the UAX #29 facts it states);
            # the oracle answers according to it, wherever it is asked
            pos = r.lo + offs[it.k]
            end = plan.get(pos)
            if end is None:
                later = sorted(x for x in plan.values() if x > pos)
                end = later[0] if later else r.lo + offs[-1]
            k2 = it.k
            while r.lo + offs[k2] < end:
                k2 += 1
            lo = offs[it.k]; hi = offs[k2]
            it.k = k2
            e_.stub_hit('grapheme oracle consulted')
            return some(StrRef(r.s, r.lo + lo, r.lo + hi))
        remaining = len(offs) - 1 - it.k
        take = 1 + e_.choose(remaining)        # every cluster length is possible
        lo = offs[it.k]; hi = offs[it.k + take]
        it.k += take
        log = getattr(e_, 'grapheme_choices', None)
        if log is not None:
            log.append(take)
        return some(StrRef(r.s, r.lo + lo, r.lo + hi))
    return Iter('custom', nextfn=nextfn, k=0)
