"""Formatting / printing: empty bodies unless formatting is the subject (DESIGN.md §2.1)."""
import re

from values import *
from . import model, dyn
from .m_core import deref_all


class FmtArgs(Opaque):
    def __init__(self, text='', pieces=None, args=None, tmpl=None):
        Opaque.__init__(self, 'fmtargs')
        self.text = text; self.pieces = pieces; self.args = args or []; self.tmpl = tmpl


@model(r'Arguments::<.*>::new_const::<.*>|Arguments::<.*>::new_v1::<.*>|Arguments::<.*>::new_v1_formatted|Arguments::<.*>::new::<.*>|Arguments::<.*>::from_str|Arguments::<.*>::from_str_nonconst|core::fmt::Arguments::<.*>::.*|std::fmt::Arguments::<.*>::.*')
def _args_new(e, c, a):
    text = ''
    args = []
    tmpl = None
    if a:
        t0 = deref_all(a[0])
        if isinstance(t0, Seq) and t0.e and all(isinstance(cl.v, Int) and cl.v.bits == 8 and type(cl.v.t) is int for cl in t0.e):
            tmpl = [cl.v.t for cl in t0.e]      # byte-coded template: <len><literal bytes> | 0xC0 (next argument) ... 0x00
    for x in a:
        x0 = deref_all(x)
        if isinstance(x0, StrRef):
            text += show_bytes(x0.bytes())
        elif isinstance(x0, Seq):
            for cl in x0.e:
                v = deref_all(cl.v)
                if isinstance(v, StrRef):
                    text += show_bytes(v.bytes())
                elif isinstance(v, Opaque) and v.kind == 'fmtarg':
                    args.append(v)
        elif isinstance(x0, SliceRef):
            for cl in x0.cells():
                v = deref_all(cl.v)
                if isinstance(v, StrRef):
                    text += show_bytes(v.bytes())
                elif isinstance(v, Opaque) and v.kind == 'fmtarg':
                    args.append(v)
    return FmtArgs(text, None, args, tmpl)


@model(r'core::fmt::rt::Argument::<.*>::new_\w+::<.*>|Argument::<.*>::new_\w+::<.*>|core::fmt::rt::Argument::<.*>::none')
def _arg_new(e, c, a):
    m = re.search(r'new_(\w+)::<(.*)>$', c)
    return Opaque('fmtarg', val=a[0] if a else None, how=m.group(1) if m else 'none', ty=m.group(2) if m else None)


@model(r'format|std::fmt::format|alloc::fmt::format|std::fmt::format::format_inner|alloc::fmt::format::format_inner')
def _format(e, c, a):
    # formatting is not the subject anywhere it is reached in the library (error messages): abstract text
    return mk_str(a[0].text if isinstance(a[0], FmtArgs) else '')


@model(r'must_use::<.*>|std::hint::must_use::<.*>|core::hint::must_use::<.*>')
def _must_use(e, c, a):
    return a[0]


@model(r'std::io::_eprint|std::io::_print|_eprint|_print')
def _eprint(e, c, a):
    cli = getattr(e, 'cli', None)
    if cli is not None and cli.get('print_to_out') and c.endswith('_print') and not c.endswith('_eprint'):
        from .m_cli import render
        from .m_io import writer_write
        writer_write(e, cli['out'], render(e, a[0]))
    return UNIT


@model(r'Formatter::<.*>::write_str|Formatter::<.*>::write_fmt|Formatter::<.*>::debug_.*|Formatter::<.*>::pad|<.* as Debug>::fmt|<.* as Display>::fmt')
def _fmt_noop(e, c, a):
    return ok(UNIT)
