"""Vec / slice / array models (shape-concrete, contents symbolic)."""
import re
import z3

from values import *
from . import model, dyn
from .m_core import deref_all, values_eq, default_of, clone_value
from .m_str import range_bounds
from engine import b_and, b_or, b_not, int_ty
from mirparse import split_top


class ByteView:
    """mutable Vec<u8> view of a String's buffer (String::as_mut_vec) or read-only &[u8] of a str"""
    def __init__(self, s, lo=None, hi=None):
        self.s = s; self.lo = lo; self.hi = hi


def seq_of(x):
    """-> (kind, obj): ('seq', Seq) | ('slice', SliceRef) | ('bytes', Opaque bytevec/strbytes)"""
    while isinstance(x, Ref):
        x = x.c.v
    if isinstance(x, Seq):
        return 'seq', x
    if isinstance(x, SliceRef):
        return 'slice', x
    if isinstance(x, Opaque) and x.kind in ('bytevec', 'strbytes'):
        return 'bytes', x
    raise Unsupported('sequence expected, got %r' % (x,))


def seq_len(x):
    k, o = seq_of(x)
    if k == 'seq':
        return len(o.e)
    if k == 'slice':
        return o.hi - o.lo
    if o.kind == 'bytevec':
        return len(o.s.b)
    return o.hi - o.lo


def seq_values(x):
    """list of element values"""
    k, o = seq_of(x)
    if k == 'seq':
        return [c.v for c in o.e]
    if k == 'slice':
        return [c.v for c in o.cells()]
    if o.kind == 'bytevec':
        return list(o.s.b)
    return o.s.b[o.lo:o.hi]


def seq_cells(x):
    k, o = seq_of(x)
    if k == 'seq':
        return o.e
    if k == 'slice':
        return o.cells()
    raise Unsupported('cells of byte view')


def as_slice(x):
    k, o = seq_of(x)
    if k == 'seq':
        return SliceRef(o, 0, len(o.e))
    if k == 'slice':
        return o
    if o.kind == 'bytevec':
        return Opaque('strbytes', s=o.s, lo=0, hi=len(o.s.b), rt='[]')
    return o


def sub_slice(e, x, lo, hi, what='slice'):
    n = seq_len(x)
    if lo > hi:
        raise Panic('%s index starts at %d but ends at %d' % (what, lo, hi))
    if hi > n:
        raise Panic('range end index %d out of range for %s of length %d' % (hi, what, n))
    k, o = seq_of(x)
    if k == 'seq':
        return SliceRef(o, lo, hi)
    if k == 'slice':
        return SliceRef(o.s, o.lo + lo, o.lo + hi)
    base = 0 if o.kind == 'bytevec' else o.lo
    return Opaque('strbytes', s=o.s, lo=base + lo, hi=base + hi, rt='[]')


# ---------------------------------------------------------------- construction
@model(r'Vec::<.*>::new|Vec::<.*>::with_capacity|Vec::<.*>::new_in|<Vec<.*> as Default>::default')
def _vec_new(e, c, a):
    return Seq([])


@model(r'std::vec::from_elem::<.*>|alloc::vec::from_elem::<.*>')
def _from_elem(e, c, a):
    n = e.concretize(a[1], 1 << 20)
    if n > 300000:
        raise Unsupported('vec![x; %d] too large for the shape-concrete model' % n)
    v = a[0]
    if isinstance(v, (Int, Float, bool)) or v is None:
        return Seq([v] * n)
    return Seq([deep_clone(v) for _ in range(n)])


@model(r'std::slice::<impl \[.*\]>::into_vec::<.*>|alloc::slice::<impl \[.*\]>::into_vec::<.*>')
def _into_vec(e, c, a):
    b = a[0]
    if isinstance(b, Opaque) and b.kind == 'box':
        b = b.cell.v
    if isinstance(b, Seq):
        return Seq([cl.v for cl in b.e])
    raise Unsupported('into_vec of %r' % (b,))


@model(r'std::boxed::box_new::<.*>|alloc::boxed::box_new::<.*>|alloc::alloc::exchange_malloc')
def _box_new_arr(e, c, a):
    return Opaque('box', cell=Cell(a[0] if a else None), rt='Box')


@model(r'Box::<\[.*; \d+\]>::new_uninit', 'Box<[T; N]>::new_uninit (lowering of vec![..])')
def _box_new_uninit(e, c, a):
    # Box<MaybeUninit<[T; N]>> as the MIR sees it: box.0 (Unique) .0 (NonNull) -> *MaybeUninit; MaybeUninit.1 (ManuallyDrop) .0 (MaybeDangling) .0 = the array
    mu = Agg([UNIT, Agg([Agg([None], ty='MaybeDangling')], ty='ManuallyDrop')], ty='MaybeUninit')
    ptr = Ref(Cell(mu))
    return Agg([Agg([ptr], ty='Unique')], ty='BoxUninit')


@model(r'std::boxed::box_assume_init_into_vec_unsafe::<.*>|alloc::boxed::box_assume_init_into_vec_unsafe::<.*>')
def _box_into_vec(e, c, a):
    mu = a[0].f[0].v.f[0].v.c.v
    arr = mu.f[1].v.f[0].v.f[0].v
    if not isinstance(arr, Seq):
        raise Panic('UB: box_assume_init_into_vec_unsafe on an uninitialised box', 'ub')
    return Seq([cl.v for cl in arr.e])


@model(r'std::slice::<impl \[.*\]>::to_vec|core::slice::<impl \[.*\]>::to_vec|alloc::slice::<impl \[.*\]>::to_vec|<\[.*\] as ToOwned>::to_owned|<Vec<.*> as From<&\[.*\]>>::from|<Vec<.*> as From<&mut \[.*\]>>::from|<&\[.*\] as Into<Vec<.*>>>::into|<Vec<.*> as From<&\[.*; \d+\]>>::from|<Vec<.*> as From<\[.*; \d+\]>>::from', 'slice -> Vec')
def _to_vec(e, c, a):
    return Seq([deep_clone(v) for v in seq_values(a[0])])


@model(r'<Vec<.*> as Clone>::clone')
def _vec_clone(e, c, a):
    return Seq([deep_clone(v) for v in seq_values(a[0])])


@model(r'<Vec<u8> as From<String>>::from|<String as Into<Vec<u8>>>::into')
def _vec_from_string(e, c, a):
    return Seq(list(a[0].b), elt='u8')


@model(r'<Vec<u8> as From<&str>>::from|<&str as Into<Vec<u8>>>::into')
def _vec_from_str(e, c, a):
    from .m_str import str_bytes
    return Seq(list(str_bytes(a[0])), elt='u8')


@model(r'<Vec<.*> as Into<Vec<.*>>>::into|<Vec<.*> as From<Vec<.*>>>::from')
def _vec_ident(e, c, a):
    return a[0]


# ---------------------------------------------------------------- basic ops
@model(r'Vec::<.*>::push')
def _vec_push(e, c, a):
    k, o = seq_of(a[0])
    if k == 'bytes':
        o.s.b.append(a[1])
    else:
        o.e.append(Cell(a[1]))
    return UNIT


@model(r'Vec::<.*>::pop')
def _vec_pop(e, c, a):
    k, o = seq_of(a[0])
    if k == 'bytes':
        return some(o.s.b.pop()) if o.s.b else none()
    return some(o.e.pop().v) if o.e else none()


@model(r'Vec::<.*>::len|core::slice::<impl \[.*\]>::len|<\[.*\]>::len')
def _vec_len(e, c, a):
    return usize(seq_len(a[0]))


@model(r'Vec::<.*>::is_empty|core::slice::<impl \[.*\]>::is_empty')
def _vec_is_empty(e, c, a):
    return seq_len(a[0]) == 0


@model(r'Vec::<.*>::clear')
def _vec_clear(e, c, a):
    k, o = seq_of(a[0])
    if k == 'bytes':
        del o.s.b[:]
    else:
        del o.e[:]
    return UNIT


@model(r'Vec::<.*>::truncate')
def _vec_truncate(e, c, a):
    k, o = seq_of(a[0]); n = e.concretize(a[1], 1 << 20)
    if k == 'bytes':
        del o.s.b[n:]
    else:
        del o.e[n:]
    return UNIT


@model(r'Vec::<.*>::resize')
def _vec_resize(e, c, a):
    k, o = seq_of(a[0]); n = e.concretize(a[1], 1 << 20)
    if n > 300000:
        raise Unsupported('Vec::resize to %d too large for the shape-concrete model' % n)
    v = a[2]
    if n < len(o.e):
        del o.e[n:]
    else:
        simple = isinstance(v, (Int, Float, bool))
        o.e.extend(Cell(v if simple else deep_clone(v)) for _ in range(n - len(o.e)))
    return UNIT


@model(r'Vec::<.*>::resize_with::<.*>')
def _vec_resize_with(e, c, a):
    k, o = seq_of(a[0]); n = e.concretize(a[1], 1 << 20)
    if n < len(o.e):
        del o.e[n:]
    while len(o.e) < n:
        o.e.append(Cell(e.call_closure(a[2], [])))
    return UNIT


@model(r'Vec::<.*>::reserve|Vec::<.*>::shrink_to_fit|Vec::<.*>::reserve_exact')
def _vec_reserve(e, c, a):
    return UNIT


@model(r'Vec::<.*>::capacity')
def _vec_capacity(e, c, a):
    return usize(seq_len(a[0]))


@model(r'Vec::<.*>::extend_from_slice|<Vec<.*> as Extend<&.*>>::extend::<&\[.*\]>|<Vec<.*> as Extend<&.*>>::extend::<&Vec<.*>>')
def _vec_extend_from_slice(e, c, a):
    k, o = seq_of(a[0])
    vals = seq_values(a[1])
    if k == 'bytes':
        o.s.b.extend(vals)
    else:
        o.e.extend(Cell(deep_clone(v)) for v in vals)
    return UNIT


@model(r'<Vec<.*> as Extend<.*>>::extend::<.*>|Vec::<.*>::extend::<.*>')
def _vec_extend(e, c, a):
    from .m_iter import make_iter, iter_next
    k, o = seq_of(a[0])
    it = make_iter(e, a[1])
    while True:
        r = iter_next(e, it)
        if r.var == 'None':
            return UNIT
        v = r.f[0].v
        if '<&' in c.split(' as Extend')[1][:4] if ' as Extend' in c else False:
            v = deref_all(v)
        if k == 'bytes':
            o.s.b.append(deref_all(v))
        else:
            o.e.append(Cell(v))


@model(r'Vec::<.*>::append')
def _vec_append(e, c, a):
    k, o = seq_of(a[0]); k2, o2 = seq_of(a[1])
    o.e.extend(o2.e); o2.e = []
    return UNIT


@model(r'Vec::<.*>::insert')
def _vec_insert(e, c, a):
    k, o = seq_of(a[0]); i = e.concretize(a[1], 4096)
    if i > len(o.e):
        raise Panic('Vec::insert index out of bounds')
    o.e.insert(i, Cell(a[2]))
    return UNIT


@model(r'Vec::<.*>::remove')
def _vec_remove(e, c, a):
    k, o = seq_of(a[0]); i = e.concretize(a[1], 4096)
    if i >= len(o.e):
        raise Panic('Vec::remove index out of bounds')
    return o.e.pop(i).v


@model(r'Vec::<.*>::swap_remove')
def _vec_swap_remove(e, c, a):
    k, o = seq_of(a[0]); i = e.concretize(a[1], 4096)
    if i >= len(o.e):
        raise Panic('Vec::swap_remove index out of bounds')
    o.e[i], o.e[-1] = o.e[-1], o.e[i]
    return o.e.pop().v


@model(r'Vec::<.*>::drain::<.*>')
def _vec_drain(e, c, a):
    k, o = seq_of(a[0])
    lo, hi = range_bounds(e, a[1], len(o.e))
    if lo > hi or hi > len(o.e):
        raise Panic('Vec::drain range out of bounds')
    items = [cl.v for cl in o.e[lo:hi]]
    del o.e[lo:hi]
    return Iter('vec_into', items=items, i=0, j=len(items))


@model(r'Vec::<.*>::dedup|Vec::<.*>::sort|Vec::<.*>::sort_unstable|core::slice::<impl \[.*\]>::sort|core::slice::<impl \[.*\]>::sort_unstable|std::slice::<impl \[.*\]>::sort')
def _vec_sort(e, c, a):
    from .m_map import key_cmp
    import functools
    k, o = seq_of(a[0])
    cells = o.e if k == 'seq' else o.cells()
    vals = [cl.v for cl in cells]
    if c.endswith('dedup'):
        out = []
        for v in vals:
            if out and e.truth(values_eq(e, out[-1], v)):
                continue
            out.append(v)
        o.e[:] = [Cell(v) for v in out]
        return UNIT
    vals.sort(key=functools.cmp_to_key(lambda x, y: key_cmp(e, x, y)))
    for cl, v in zip(cells, vals):
        cl.v = v
    return UNIT


@model(r'(?:Vec::<.*>|(?:core|std|alloc)::slice::<impl \[.*\]>)::(sort_by|sort_unstable_by|sort_by_key|sort_unstable_by_key|sort_by_cached_key)::<.*>', 'slice::sort_by* (stable merge by the closure; every comparison outcome that is feasible is explored)')
def _vec_sort_by(e, c, a):
    from .m_map import key_cmp
    import functools
    k, o = seq_of(a[0])
    cells = o.e if k == 'seq' else o.cells()
    vals = [cl.v for cl in cells]
    clo = a[1]
    by_key = '_key' in c

    def cmp(x, y):
        if by_key:
            kx = e.call_closure(clo, [Ref(Cell(x))]); ky = e.call_closure(clo, [Ref(Cell(y))])
            return key_cmp(e, kx, ky)
        r = deref_all(e.call_closure(clo, [Ref(Cell(x)), Ref(Cell(y))]))
        v = e.concretize(Int(r.t, 8, True)) if isinstance(r, Int) else None
        if v is None:
            raise Unsupported('sort_by closure result %r' % (r,))
        if v >= 128:
            v -= 256
        return v
    vals.sort(key=functools.cmp_to_key(cmp))        # python's sort is stable, like slice::sort_by
    for cl, v in zip(cells, vals):
        cl.v = v
    return UNIT


@model(r'Vec::<.*>::(retain|retain_mut)::<.*>', 'Vec::retain (closure decides per element; symbolic decisions fork)')
def _vec_retain(e, c, a):
    k, o = seq_of(a[0])
    if k != 'seq':
        raise Unsupported('retain on %r' % (o,))
    keep = []
    for cl in list(o.e):
        if e.truth(e.call_closure(a[1], [Ref(cl)])):
            keep.append(cl)
    o.e[:] = keep
    return UNIT


@model(r'Vec::<.*>::into_boxed_slice')
def _vec_into_boxed(e, c, a):
    return Opaque('box', cell=Cell(a[0]), rt='Box')


# ---------------------------------------------------------------- deref / as_slice
@model(r'<Vec<.*> as Deref>::deref|<Vec<.*> as DerefMut>::deref_mut|Vec::<.*>::as_slice|Vec::<.*>::as_mut_slice|<Vec<.*> as AsRef<\[.*\]>>::as_ref|<Vec<.*> as AsMut<\[.*\]>>::as_mut|<Vec<.*> as Borrow<\[.*\]>>::borrow|<\[.*\] as AsRef<\[.*\]>>::as_ref|<&\[.*\] as AsRef<\[.*\]>>::as_ref|<&Vec<.*> as AsRef<\[.*\]>>::as_ref|core::array::<impl \[.*; \d+\]>::as_slice|core::array::<impl \[.*; \d+\]>::as_mut_slice|<\[.*; \d+\] as AsRef<\[.*\]>>::as_ref|<&\[.*; \d+\] as AsRef<\[.*\]>>::as_ref|<&&\[.*\] as AsRef<\[.*\]>>::as_ref|<&mut \[.*\] as AsRef<\[.*\]>>::as_ref|<&mut Vec<.*> as AsRef<\[.*\]>>::as_ref', 'Vec/array -> slice')
def _vec_deref(e, c, a):
    return as_slice(a[0])


@model(r'<Vec<u8> as AsRef<\[u8\]>>::as_ref')
def _vecu8_asref(e, c, a):
    return as_slice(a[0])


# ---------------------------------------------------------------- indexing
def _index_usize(e, x, i, what):
    n = seq_len(x)
    idx = e.concretize(i, 1 << 16)
    if idx >= n:
        raise Panic('index out of bounds: the len is %d but the index is %d (%s)' % (n, idx, what))
    k, o = seq_of(x)
    if k == 'seq':
        return Ref(o.e[idx])
    if k == 'slice':
        return Ref(o.s.e[o.lo + idx])
    base = 0 if o.kind == 'bytevec' else o.lo
    return Ref(Cell(o.s.b[base + idx]))


@model(r'<Vec<.*> as Index<usize>>::index|<Vec<.*> as IndexMut<usize>>::index_mut|<\[.*\] as Index<usize>>::index|<\[.*\] as IndexMut<usize>>::index_mut|<\[.*; \d+\] as Index<usize>>::index|<\[.*; \d+\] as IndexMut<usize>>::index_mut', 'seq[usize]')
def _index(e, c, a):
    return _index_usize(e, a[0], a[1], c)


@model(r'<Vec<.*> as Index<.*Range.*>>::index|<\[.*\] as Index<.*Range.*>>::index|<Vec<.*> as IndexMut<.*Range.*>>::index_mut|<\[.*\] as IndexMut<.*Range.*>>::index_mut|<\[.*; \d+\] as Index<.*Range.*>>::index|<\[.*; \d+\] as IndexMut<.*Range.*>>::index_mut|core::array::<impl Index.*', 'seq[range]')
def _index_range(e, c, a):
    lo, hi = range_bounds(e, a[1], seq_len(a[0]))
    return sub_slice(e, a[0], lo, hi)


@model(r'core::slice::<impl \[.*\]>::get::<usize>|core::slice::<impl \[.*\]>::get_mut::<usize>')
def _get_usize(e, c, a):
    n = seq_len(a[0])
    i = a[1]
    if type(i.t) is not int:
        inb = e.truth(z3.ULT(i.t, n))
        if not inb:
            return none()
    elif i.t >= n:
        return none()
    return some(_index_usize(e, a[0], i, c))


@model(r'core::slice::<impl \[.*\]>::get::<.*Range.*>|core::slice::<impl \[.*\]>::get_mut::<.*Range.*>')
def _get_range(e, c, a):
    n = seq_len(a[0])
    lo, hi = range_bounds(e, a[1], n)
    if lo > hi or hi > n:
        return none()
    return some(sub_slice(e, a[0], lo, hi))


@model(r'core::slice::<impl \[.*\]>::get_unchecked::<usize>|core::slice::<impl \[.*\]>::get_unchecked_mut::<usize>', 'slice::get_unchecked(usize) + precondition')
def _get_unchecked(e, c, a):
    n = seq_len(a[0])
    i = a[1]
    e.stub_hit('precondition:slice::get_unchecked')
    if type(i.t) is not int:
        if not e.truth(z3.ULT(i.t, n)):
            raise Panic('UB: get_unchecked index out of range (len %d): %s' % (n, c), 'ub')
    elif i.t >= n:
        raise Panic('UB: get_unchecked(%d) out of range (len %d): %s' % (i.t, n, c), 'ub')
    return _index_usize(e, a[0], i, c)


@model(r'core::slice::<impl \[.*\]>::get_unchecked::<.*Range.*>|core::slice::<impl \[.*\]>::get_unchecked_mut::<.*Range.*>', 'slice::get_unchecked(range) + precondition')
def _get_unchecked_range(e, c, a):
    n = seq_len(a[0])
    lo, hi = range_bounds(e, a[1], n)
    e.stub_hit('precondition:slice::get_unchecked(range)')
    if lo > hi or hi > n:
        raise Panic('UB: get_unchecked(%d..%d) out of range (len %d): %s' % (lo, hi, n, c), 'ub')
    return sub_slice(e, a[0], lo, hi)


@model(r'core::slice::<impl \[.*\]>::first|core::slice::<impl \[.*\]>::first_mut')
def _first(e, c, a):
    if seq_len(a[0]) == 0:
        return none()
    return some(_index_usize(e, a[0], usize(0), c))


@model(r'core::slice::<impl \[.*\]>::last|core::slice::<impl \[.*\]>::last_mut')
def _last(e, c, a):
    n = seq_len(a[0])
    if n == 0:
        return none()
    return some(_index_usize(e, a[0], usize(n - 1), c))


@model(r'core::slice::<impl \[.*\]>::split_last|core::slice::<impl \[.*\]>::split_last_mut')
def _split_last(e, c, a):
    n = seq_len(a[0])
    if n == 0:
        return none()
    return some(Agg([_index_usize(e, a[0], usize(n - 1), c), sub_slice(e, a[0], 0, n - 1)]))


@model(r'core::slice::<impl \[.*\]>::split_first|core::slice::<impl \[.*\]>::split_first_mut')
def _split_first(e, c, a):
    n = seq_len(a[0])
    if n == 0:
        return none()
    return some(Agg([_index_usize(e, a[0], usize(0), c), sub_slice(e, a[0], 1, n)]))


@model(r'core::slice::<impl \[.*\]>::split_at|core::slice::<impl \[.*\]>::split_at_mut')
def _split_at(e, c, a):
    n = seq_len(a[0]); m = e.concretize(a[1], 1 << 16)
    if m > n:
        raise Panic('split_at: mid > len')
    return Agg([sub_slice(e, a[0], 0, m), sub_slice(e, a[0], m, n)])


@model(r'core::slice::<impl \[.*\]>::copy_from_slice|core::slice::<impl \[.*\]>::clone_from_slice')
def _copy_from_slice(e, c, a):
    dst = seq_cells(a[0]); src = seq_values(a[1])
    if len(dst) != len(src):
        raise Panic('copy_from_slice: source slice length (%d) does not match destination slice length (%d)' % (len(src), len(dst)))
    for d, s in zip(dst, src):
        d.v = copy_val(s)
    return UNIT


@model(r'core::slice::<impl \[.*\]>::fill')
def _fill(e, c, a):
    for d in seq_cells(a[0]):
        d.v = copy_val(a[1])
    return UNIT


@model(r'core::slice::<impl \[.*\]>::rotate_right|core::slice::<impl \[.*\]>::rotate_left')
def _rotate(e, c, a):
    cells = seq_cells(a[0]); k = e.concretize(a[1], 1 << 16); n = len(cells)
    if k > n:
        raise Panic('rotate: k <= self.len() violated')
    vals = [cl.v for cl in cells]
    if n:
        if c.endswith('rotate_right'):
            vals = vals[n - k:] + vals[:n - k]
        else:
            vals = vals[k:] + vals[:k]
    for cl, v in zip(cells, vals):
        cl.v = v
    return UNIT


@model(r'core::slice::<impl \[.*\]>::reverse')
def _reverse(e, c, a):
    cells = seq_cells(a[0])
    vals = [cl.v for cl in cells][::-1]
    for cl, v in zip(cells, vals):
        cl.v = v
    return UNIT


@model(r'core::slice::<impl \[.*\]>::swap')
def _swap_elems(e, c, a):
    cells = seq_cells(a[0]); i = e.concretize(a[1], 1 << 16); j = e.concretize(a[2], 1 << 16)
    if i >= len(cells) or j >= len(cells):
        raise Panic('slice::swap index out of bounds')
    cells[i].v, cells[j].v = cells[j].v, cells[i].v
    return UNIT


@model(r'core::slice::<impl \[.*\]>::contains')
def _contains(e, c, a):
    r = False
    for v in seq_values(a[0]):
        r = b_or(r, values_eq(e, v, a[1]))
    return r


@model(r'core::slice::<impl \[.*\]>::starts_with|core::slice::<impl \[.*\]>::ends_with')
def _starts_with(e, c, a):
    xs = seq_values(a[0]); ys = seq_values(a[1])
    if len(ys) > len(xs):
        return False
    seg = xs[:len(ys)] if c.endswith('starts_with') else xs[len(xs) - len(ys):]
    r = True
    for p, q in zip(seg, ys):
        r = b_and(r, values_eq(e, p, q))
    return r


@model(r'core::slice::<impl \[.*\]>::concat::<.*>|std::slice::<impl \[.*\]>::concat::<.*>|alloc::slice::<impl \[.*\]>::concat::<.*>')
def _concat(e, c, a):
    out = []
    for v in seq_values(a[0]):
        out.extend(seq_values(v))
    return Seq(out)


@model(r'std::slice::<impl \[.*\]>::join::<.*>|alloc::slice::<impl \[.*\]>::join::<.*>|core::slice::<impl \[.*\]>::join::<.*>')
def _join(e, c, a):
    from .m_str import str_bytes
    sep = str_bytes(a[1])
    out = []
    for i, v in enumerate(seq_values(a[0])):
        if i:
            out.extend(sep)
        out.extend(str_bytes(v))
    return Str(out)


# ---------------------------------------------------------------- iteration entry points
@model(r'core::slice::<impl \[.*\]>::iter|core::slice::<impl \[.*\]>::iter_mut|Vec::<.*>::iter|Vec::<.*>::iter_mut')
def _iter(e, c, a):
    k, o = seq_of(a[0])
    if k == 'bytes':
        vals = seq_values(a[0])
        return Iter('vec_into', items=[Ref(Cell(v)) for v in vals], i=0, j=len(vals))
    if k == 'seq':
        return Iter('slice', s=o, i=0, j=len(o.e))
    return Iter('slice', s=o.s, i=o.lo, j=o.hi)


@model(r'core::slice::<impl \[.*\]>::chunks_exact|core::slice::<impl \[.*\]>::chunks|core::slice::<impl \[.*\]>::chunks_exact_mut|core::slice::<impl \[.*\]>::chunks_mut')
def _chunks(e, c, a):
    n = e.concretize(a[1], 1 << 16)
    if n == 0:
        raise Panic('chunk size must be non-zero')
    sl = as_slice(a[0])
    exact = 'exact' in c
    return Iter('chunks', s=sl.s, i=sl.lo, j=sl.hi, n=n, exact=exact)


@model(r'core::slice::<impl \[.*\]>::windows')
def _windows(e, c, a):
    n = e.concretize(a[1], 1 << 16)
    if n == 0:
        raise Panic('window size must be non-zero')
    sl = as_slice(a[0])
    return Iter('windows', s=sl.s, i=sl.lo, j=sl.hi, n=n)


# ---------------------------------------------------------------- comparisons / hashing
@model(r'<Vec<.*> as PartialEq<.*>>::eq|<Vec<.*> as PartialEq>::eq|<\[.*\] as PartialEq<.*>>::eq|<\[.*; \d+\] as PartialEq<.*>>::eq|<&\[.*\] as PartialEq<.*>>::eq|<\[.*; \d+\] as PartialEq>::eq')
def _seq_eq(e, c, a):
    return values_eq(e, Seq(seq_values(a[0])), Seq(seq_values(a[1])))


@model(r'<Vec<.*> as PartialEq<.*>>::ne|<Vec<.*> as PartialEq>::ne|<\[.*\] as PartialEq<.*>>::ne|<\[.*; \d+\] as PartialEq<.*>>::ne|<&\[.*\] as PartialEq<.*>>::ne')
def _seq_ne(e, c, a):
    return b_not(values_eq(e, Seq(seq_values(a[0])), Seq(seq_values(a[1]))))


@model(r'<Vec<.*> as Hash>::hash::<.*>|<\[.*\] as Hash>::hash::<.*>')
def _seq_hash(e, c, a):
    return UNIT


@model(r'<\[.*; \d+\] as TryFrom<&\[.*\]>>::try_from|<&\[.*; \d+\] as TryFrom<&\[.*\]>>::try_from|<\[.*; \d+\] as TryFrom<Vec<.*>>>::try_from')
def _arr_try_from(e, c, a):
    m = re.match(r'<&?\[.*; (\d+)\] as', c)
    n = int(m.group(1))
    vals = seq_values(a[0])
    if len(vals) != n:
        return err(Agg([], ty='TryFromSliceError'))
    s = Seq([copy_val(v) for v in vals], arr=True)
    return ok(Ref(Cell(s)) if c.startswith('<&') else s)


# ---------------------------------------------------------------- core::simd::Simd<i32, 8> (lane-wise model)
@model(r'Simd::<.*>::from_slice|core::simd::Simd::<.*>::from_slice|std::simd::Simd::<.*>::from_slice', 'Simd::from_slice (lane-wise)')
def _simd_from_slice(e, c, a):
    m = re.search(r'Simd::<\w+, (\d+)>', c)
    n = int(m.group(1))
    vals = seq_values(a[0])
    if len(vals) < n:
        raise Panic('Simd::from_slice: slice length must be at least the number of elements')
    return Seq([copy_val(v) for v in vals[:n]], arr=True)


@model(r'Simd::<.*>::as_array|Simd::<.*>::as_mut_array|Simd::<.*>::to_array')
def _simd_as_array(e, c, a):
    if c.endswith('to_array'):
        return copy_val(deref_all(a[0]))
    return a[0]


@model(r'<Simd<.*> as From<\[.*\]>>::from|Simd::<.*>::from_array|<\[.*\] as From<Simd<.*>>>::from')
def _simd_from_array(e, c, a):
    return a[0]


@model(r'<Simd<.*> as AddAssign<&Simd<.*>>>::add_assign|<Simd<.*> as AddAssign>::add_assign|<Simd<.*> as AddAssign<Simd<.*>>>::add_assign', 'Simd += (lane-wise wrapping add)')
def _simd_add_assign(e, c, a):
    dst = seq_cells(a[0]); src = seq_values(a[1])
    for d, s in zip(dst, src):
        d.v = e.binop('Add', d.v, s)
    return UNIT
