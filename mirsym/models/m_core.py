"""Option / Result / Try / integer conversions and methods / Clone / Default / mem / cmp / panics."""
import re
import z3

from values import *
from . import model, dyn, rt_type
from engine import int_ty, is_bool, b_not, b_and, b_or, b_z, to_signed, parse_callee
from mirparse import strip_generics, split_top


def deref_all(v):
    while isinstance(v, Ref):
        v = v.c.v
    return v


def closure_arg(callee, idx=-1):
    return None


# ---------------------------------------------------------------- panics
@model(r'panic|core::panicking::panic|std::rt::begin_panic::<.*>|core::panicking::panic_explicit|core::panicking::unreachable_display::<.*>')
def _panic(e, c, a):
    msg = ''
    if a and isinstance(a[0], StrRef):
        msg = show_bytes(a[0].bytes())
    raise Panic('panic: ' + msg)


@model(r'panic_fmt|core::panicking::panic_fmt|core::panicking::panic_display::<.*>|panic_display::<.*>')
def _panic_fmt(e, c, a):
    msg = ''
    if a and isinstance(a[0], Opaque) and a[0].kind == 'fmtargs':
        msg = a[0].text
    raise Panic('panic_fmt: ' + msg)


@model(r'core::panicking::assert_failed::<.*>|assert_failed::<.*>')
def _assert_failed(e, c, a):
    raise Panic('assert_eq!/assert_ne! failed: %r vs %r' % (deref_all(a[1]), deref_all(a[2])))


@model(r'core::panicking::panic_bounds_check|core::panicking::panic_nounwind|core::panicking::panic_const::.*|core::panicking::panic_cannot_unwind|core::panicking::panic_in_cleanup')
def _panic_misc(e, c, a):
    raise Panic('panic: ' + c)


@model(r'std::intrinsics::unreachable|core::hint::unreachable_unchecked|unreachable_unchecked')
def _unreach(e, c, a):
    raise Panic('UB: unreachable_unchecked reached', 'ub')


@model(r'std::intrinsics::cold_path|core::hint::black_box::<.*>|std::hint::black_box::<.*>|core::intrinsics::cold_path')
def _coldpath(e, c, a):
    return a[0] if a else UNIT


# ---------------------------------------------------------------- Option
def is_some(v):
    return v.var == 'Some'


@model(r'Option::<.*>::take')
def _opt_take(e, c, a):
    cell = a[0].c; v = cell.v; cell.v = none(); return v


@model(r'Option::<.*>::replace')
def _opt_replace(e, c, a):
    cell = a[0].c; v = cell.v; cell.v = some(a[1]); return v


@model(r'Option::<.*>::insert')
def _opt_insert(e, c, a):
    cell = a[0].c; cell.v = some(a[1]); return Ref(cell.v.f[0])


@model(r'Option::<.*>::as_mut|Option::<.*>::as_ref')
def _opt_asref(e, c, a):
    v = a[0].c.v
    return some(Ref(v.f[0])) if v.var == 'Some' else none()


@model(r'Option::<.*>::as_deref|Option::<.*>::as_deref_mut')
def _opt_asderef(e, c, a):
    v = a[0].c.v
    if v.var != 'Some':
        return none()
    from .m_str import as_strref_any
    inner = v.f[0].v
    if isinstance(inner, (Str, StrRef)) or (isinstance(inner, Enum) and inner.ty == 'Cow'):
        return some(as_strref_any(Ref(v.f[0])))
    if isinstance(inner, Seq):
        return some(SliceRef(inner, 0, len(inner.e)))
    raise Unsupported('as_deref of %r' % (inner,))


@model(r'Option::<.*>::unwrap|Option::<.*>::expect')
def _opt_unwrap(e, c, a):
    if a[0].var != 'Some':
        msg = show_bytes(a[1].bytes()) if len(a) > 1 and isinstance(a[1], StrRef) else 'called `Option::unwrap()` on a `None` value'
        raise Panic('unwrap/expect on None: ' + msg)
    return a[0].f[0].v


@model(r'Option::<.*>::unwrap_unchecked')
def _opt_unwrap_unchecked(e, c, a):
    e.stub_hit('precondition:Option::unwrap_unchecked')
    if a[0].var != 'Some':
        raise Panic('UB: Option::unwrap_unchecked on None', 'ub')
    return a[0].f[0].v


@model(r'Option::<.*>::unwrap_or')
def _opt_unwrap_or(e, c, a):
    return a[0].f[0].v if a[0].var == 'Some' else a[1]


@model(r'Option::<.*>::unwrap_or_default')
def _opt_unwrap_or_default(e, c, a):
    if a[0].var == 'Some':
        return a[0].f[0].v
    ty = re.match(r'Option::<(.*)>::unwrap_or_default$', c).group(1)
    return default_of(e, ty)


@model(r'Option::<.*>::unwrap_or_else::<.*>')
def _opt_unwrap_or_else(e, c, a):
    return a[0].f[0].v if a[0].var == 'Some' else e.call_closure(a[1], [])


@model(r'Option::<.*>::is_some')
def _opt_is_some(e, c, a):
    return deref_all(a[0]).var == 'Some'


@model(r'Option::<.*>::is_none')
def _opt_is_none(e, c, a):
    return deref_all(a[0]).var == 'None'


@model(r'Option::<.*>::map::<.*>')
def _opt_map(e, c, a):
    if a[0].var == 'None':
        return none()
    return some(e.call_closure(a[1], [a[0].f[0].v]))


@model(r'Option::<.*>::and_then::<.*>')
def _opt_and_then(e, c, a):
    if a[0].var == 'None':
        return none()
    return e.call_closure(a[1], [a[0].f[0].v])


@model(r'Option::<.*>::map_or::<.*>')
def _opt_map_or(e, c, a):
    if a[0].var == 'None':
        return a[1]
    return e.call_closure(a[2], [a[0].f[0].v])


@model(r'Option::<.*>::map_or_else::<.*>')
def _opt_map_or_else(e, c, a):
    if a[0].var == 'None':
        return e.call_closure(a[1], [])
    return e.call_closure(a[2], [a[0].f[0].v])


@model(r'Option::<.*>::ok_or::<.*>')
def _opt_ok_or(e, c, a):
    return ok(a[0].f[0].v) if a[0].var == 'Some' else err(a[1])


@model(r'Option::<.*>::ok_or_else::<.*>')
def _opt_ok_or_else(e, c, a):
    return ok(a[0].f[0].v) if a[0].var == 'Some' else err(e.call_closure(a[1], []))


@model(r'Option::<.*>::cloned|Option::<.*>::copied')
def _opt_cloned(e, c, a):
    if a[0].var == 'None':
        return none()
    return some(clone_value(e, deref_all(a[0].f[0].v)))


@model(r'Option::<.*>::filter::<.*>')
def _opt_filter(e, c, a):
    if a[0].var == 'None':
        return none()
    r = e.call_closure(a[1], [Ref(a[0].f[0])])
    return a[0] if e.truth(r) else none()


@model(r'Option::<.*>::get_or_insert_with::<.*>')
def _opt_goiw(e, c, a):
    cell = a[0].c
    if cell.v.var == 'None':
        cell.v = some(e.call_closure(a[1], []))
    return Ref(cell.v.f[0])


@model(r'Option::<.*>::or_else::<.*>')
def _opt_or_else(e, c, a):
    return a[0] if a[0].var == 'Some' else e.call_closure(a[1], [])


@model(r'Option::<.*>::or')
def _opt_or(e, c, a):
    return a[0] if a[0].var == 'Some' else a[1]


@model(r'Option::<.*>::zip::<.*>')
def _opt_zip(e, c, a):
    if a[0].var == 'Some' and a[1].var == 'Some':
        return some(Agg([a[0].f[0].v, a[1].f[0].v]))
    return none()


@model(r'Option::<.*>::then_some|bool::then_some::<.*>|core::bool::<impl bool>::then_some::<.*>')
def _then_some(e, c, a):
    return some(a[1]) if e.truth(a[0]) else none()


@model(r'bool::then::<.*>|core::bool::<impl bool>::then::<.*>')
def _then(e, c, a):
    return some(e.call_closure(a[1], [])) if e.truth(a[0]) else none()


@model(r'<Option<.*> as Clone>::clone_from|Option::<.*>::clone_from')
def _opt_clone_from(e, c, a):
    a[0].c.v = clone_value(e, deref_all(a[1]))
    return UNIT


# ---------------------------------------------------------------- Result / Try
@model(r'<std::result::Result<.*> as Try>::branch|<Result<.*> as Try>::branch')
def _res_branch(e, c, a):
    r = a[0]
    if r.var == 'Ok':
        return Enum('Continue', [r.f[0].v], 'ControlFlow')
    return Enum('Break', [Enum('Err', [r.f[0].v], 'Result')], 'ControlFlow')


@model(r'<Option<.*> as Try>::branch')
def _opt_branch(e, c, a):
    r = a[0]
    if r.var == 'Some':
        return Enum('Continue', [r.f[0].v], 'ControlFlow')
    return Enum('Break', [none()], 'ControlFlow')


@model(r'<Option<.*> as FromResidual<.*>>::from_residual')
def _opt_from_residual(e, c, a):
    return none()


@model(r'<std::result::Result<.*> as FromResidual<.*>>::from_residual|<Result<.*> as FromResidual<.*>>::from_residual')
def _res_from_residual(e, c, a):
    errv = a[0].f[0].v
    # `?` converts the error with From: find source and target error types in the callee text
    m = re.match(r'<(?:std::result::)?Result<(.*)> as FromResidual<(?:std::result::)?Result<Infallible, (.*)>>>::from_residual$', c)
    if m:
        tgt_args = split_top(m.group(1))
        tgt = tgt_args[-1] if len(tgt_args) >= 2 else None
        src = m.group(2)
        if tgt is not None and strip_generics(tgt).split('::')[-1] != strip_generics(src).split('::')[-1]:
            errv = e.call('<%s as From<%s>>::from' % (tgt, src), [errv])
    return Enum('Err', [errv], 'Result')


@model(r'(?:std::result::)?Result::<.*>::unwrap|(?:std::result::)?Result::<.*>::expect')
def _res_unwrap(e, c, a):
    if a[0].var != 'Ok':
        raise Panic('unwrap/expect on Err(%r)' % (a[0].f[0].v,))
    return a[0].f[0].v


@model(r'(?:std::result::)?Result::<.*>::unwrap_err|(?:std::result::)?Result::<.*>::expect_err')
def _res_unwrap_err(e, c, a):
    if a[0].var != 'Err':
        raise Panic('unwrap_err on Ok')
    return a[0].f[0].v


@model(r'(?:std::result::)?Result::<.*>::unwrap_or')
def _res_unwrap_or(e, c, a):
    return a[0].f[0].v if a[0].var == 'Ok' else a[1]


@model(r'(?:std::result::)?Result::<.*>::unwrap_or_default')
def _res_unwrap_or_default(e, c, a):
    if a[0].var == 'Ok':
        return a[0].f[0].v
    m = re.match(r'(?:std::result::)?Result::<(.*)>::unwrap_or_default$', c)
    return default_of(e, split_top(m.group(1))[0])


@model(r'(?:std::result::)?Result::<.*>::unwrap_unchecked')
def _res_unwrap_unchecked(e, c, a):
    if a[0].var != 'Ok':
        raise Panic('UB: Result::unwrap_unchecked on Err', 'ub')
    return a[0].f[0].v


@model(r'(?:std::result::)?Result::<.*>::map_err::<.*>')
def _res_map_err(e, c, a):
    if a[0].var == 'Ok':
        return a[0]
    return err(e.call_closure(a[1], [a[0].f[0].v]))


@model(r'(?:std::result::)?Result::<.*>::map::<.*>')
def _res_map(e, c, a):
    if a[0].var == 'Err':
        return a[0]
    return ok(e.call_closure(a[1], [a[0].f[0].v]))


@model(r'(?:std::result::)?Result::<.*>::and_then::<.*>')
def _res_and_then(e, c, a):
    if a[0].var == 'Err':
        return a[0]
    return e.call_closure(a[1], [a[0].f[0].v])


@model(r'(?:std::result::)?Result::<.*>::ok')
def _res_ok(e, c, a):
    return some(a[0].f[0].v) if a[0].var == 'Ok' else none()


@model(r'(?:std::result::)?Result::<.*>::err')
def _res_err(e, c, a):
    return some(a[0].f[0].v) if a[0].var == 'Err' else none()


@model(r'(?:std::result::)?Result::<.*>::is_ok')
def _res_is_ok(e, c, a):
    return deref_all(a[0]).var == 'Ok'


@model(r'(?:std::result::)?Result::<.*>::is_err')
def _res_is_err(e, c, a):
    return deref_all(a[0]).var == 'Err'


@model(r'(?:std::result::)?Result::<.*>::as_ref|(?:std::result::)?Result::<.*>::as_mut')
def _res_as_ref(e, c, a):
    v = a[0].c.v
    return Enum(v.var, [Ref(v.f[0])], 'Result')


# ---------------------------------------------------------------- integer conversions
def conv_int(e, v, bits, sg, checked):
    """checked=True: TryFrom semantic -> Result"""
    t = v.t
    if type(t) is int:
        val = to_signed(t, v.bits) if v.sg else t
        lo, hi = (-(1 << (bits - 1)), (1 << (bits - 1)) - 1) if sg else (0, (1 << bits) - 1)
        if lo <= val <= hi:
            r = Int(val, bits, sg)
            return ok(r) if checked else r
        if checked:
            return err(Agg([], ty='TryFromIntError'))
        return Int(val, bits, sg)
    # symbolic
    if bits > v.bits:
        ext = z3.SignExt(bits - v.bits, t) if v.sg else z3.ZeroExt(bits - v.bits, t)
        fits = True if (not v.sg or sg) else (t >= 0)
    elif bits == v.bits:
        ext = t
        fits = True if v.sg == sg else (t >= 0)      # signed compare: top bit clear
    else:
        ext = z3.Extract(bits - 1, 0, t)
        back = z3.SignExt(v.bits - bits, ext) if sg else z3.ZeroExt(v.bits - bits, ext)
        fits = back == t
        if v.sg and not sg:
            fits = z3.And(fits, t >= 0)
    if not checked:
        return Int(ext, bits, sg)
    if fits is True or e.truth(fits):
        return ok(Int(ext, bits, sg))
    return err(Agg([], ty='TryFromIntError'))


@model(r'<(u8|u16|u32|u64|u128|usize|i8|i16|i32|i64|i128|isize) as TryFrom<(?:u8|u16|u32|u64|u128|usize|i8|i16|i32|i64|i128|isize)>>::try_from', 'int TryFrom')
def _try_from(e, c, a):
    ty = c[1:c.index(' ')]
    bits, sg = int_ty(ty)
    return conv_int(e, a[0], bits, sg, True)


@model(r'<(u8|u16|u32|u64|u128|usize|i8|i16|i32|i64|i128|isize) as TryInto<(?:u8|u16|u32|u64|u128|usize|i8|i16|i32|i64|i128|isize)>>::try_into', 'int TryInto')
def _try_into(e, c, a):
    m = re.match(r'<\w+ as TryInto<(\w+)>>', c)
    bits, sg = int_ty(m.group(1))
    return conv_int(e, a[0], bits, sg, True)


@model(r'<(u8|u16|u32|u64|u128|usize|i8|i16|i32|i64|i128|isize|f64) as From<(?:u8|u16|u32|u64|usize|i8|i16|i32|i64|isize|bool|char)>>::from', 'int From')
def _int_from(e, c, a):
    ty = c[1:c.index(' ')]
    if ty == 'f64':
        cv = a[0].conc()
        if cv is not None:
            return Float(float(cv))
        return Float(z3.fpSignedToFP(z3.RNE(), a[0].t, z3.Float64()) if a[0].sg else z3.fpUnsignedToFP(z3.RNE(), a[0].t, z3.Float64()), src=a[0])
    bits, sg = int_ty(ty)
    v = a[0]
    if is_bool(v):
        if isinstance(v, bool):
            return Int(1 if v else 0, bits, sg)
        return Int(z3.If(v, z3.BitVecVal(1, bits), z3.BitVecVal(0, bits)), bits, sg)
    return conv_int(e, v, bits, sg, False)


@model(r'<(u8|u16|u32|u64|usize|i8|i16|i32|i64|isize|bool|char) as Into<(?:u8|u16|u32|u64|u128|usize|i8|i16|i32|i64|i128|isize)>>::into', 'int Into')
def _int_into(e, c, a):
    m = re.match(r'<\w+ as Into<(\w+)>>', c)
    bits, sg = int_ty(m.group(1))
    return conv_int(e, a[0], bits, sg, False)


@model(r'<char as TryFrom<u32>>::try_from|char::methods::<impl char>::from_u32|core::char::from_u32|std::char::from_u32')
def _char_from_u32(e, c, a):
    t = a[0]
    valid = b_or(e.binop('Lt', t, Int(0xD800, 32)), b_and(e.binop('Ge', t, Int(0xE000, 32)), e.binop('Lt', t, Int(0x110000, 32))))
    is_opt = 'from_u32' in c
    if e.truth(valid):
        ch = Int(t.t, 32, False, ('char',))
        return some(ch) if is_opt else ok(ch)
    return none() if is_opt else err(Agg([], ty='CharTryFromError'))


@model(r'<char as From<u8>>::from')
def _char_from_u8(e, c, a):
    return conv_int(e, a[0], 32, False, False)


@model(r'core::num::<impl (\w+)>::(wrapping_add|wrapping_sub|wrapping_mul|saturating_sub|saturating_add|checked_add|checked_sub|checked_mul|pow|abs|min|max|is_power_of_two|leading_zeros|trailing_zeros|count_ones|abs_diff|checked_div|wrapping_neg|unsigned_abs|rem_euclid|div_euclid|checked_pow|overflowing_add|overflowing_sub|rotate_left|rotate_right|swap_bytes|to_le|to_be|from_le|from_be)', 'integer methods')
def _int_methods(e, c, a):
    m = re.match(r'core::num::<impl (\w+)>::(\w+)$', c)
    ty, meth = m.group(1), m.group(2)
    bits, sg = int_ty(ty)
    x = a[0]
    if meth == 'wrapping_add':
        return e.binop('Add', x, a[1])
    if meth == 'wrapping_sub':
        return e.binop('Sub', x, a[1])
    if meth == 'wrapping_mul':
        return e.binop('Mul', x, a[1])
    if meth == 'wrapping_neg':
        return Int(-x.t, bits, sg)
    if meth in ('saturating_sub', 'saturating_add', 'checked_add', 'checked_sub', 'checked_mul', 'overflowing_add', 'overflowing_sub'):
        op = {'sub': 'SubWithOverflow', 'add': 'AddWithOverflow', 'mul': 'MulWithOverflow'}[meth.split('_')[1]]
        r = e.binop(op, x, a[1])
        val, ov = r.f[0].v, r.f[1].v
        if meth.startswith('overflowing'):
            return r
        if meth.startswith('checked'):
            return none() if e.truth(ov) else some(val)
        if isinstance(ov, bool):
            if not ov:
                return val
        if e.truth(ov):
            if sg:
                neg = e.truth(e.binop('Lt', x, Int(0, bits, sg))) if meth == 'saturating_add' else not e.truth(e.binop('Lt', x, Int(0, bits, sg)))
                # add overflow: sign of x decides; sub overflow: x>=0 -> MAX? (x - y overflow positive when x>=0)
                if meth == 'saturating_add':
                    return Int(-(1 << (bits - 1)), bits, sg) if neg else Int((1 << (bits - 1)) - 1, bits, sg)
                return Int((1 << (bits - 1)) - 1, bits, sg) if neg else Int(-(1 << (bits - 1)), bits, sg)
            return Int(0, bits, sg) if meth == 'saturating_sub' else Int((1 << bits) - 1, bits, sg)
        return val
    if meth in ('min', 'max'):
        lt = e.binop('Le', x, a[1])
        if isinstance(lt, bool):
            return (x if lt else a[1]) if meth == 'min' else (a[1] if lt else x)
        return Int(z3.If(lt, x.z(), a[1].z()) if meth == 'min' else z3.If(lt, a[1].z(), x.z()), bits, sg)
    if meth in ('pow', 'checked_pow'):
        base = x; ex = e.concretize(a[1])
        acc = Int(1, bits, sg)
        for _ in range(ex):
            r = e.binop('MulWithOverflow', acc, base)
            if e.truth(r.f[1].v):
                if meth == 'checked_pow':
                    return none()
                raise Panic('attempt to multiply with overflow (pow)')
            acc = r.f[0].v
        return some(acc) if meth == 'checked_pow' else acc
    if meth == 'abs':
        neg = e.binop('Lt', x, Int(0, bits, sg))
        if e.truth(neg):
            if e.truth(e.binop('Eq', x, Int(-(1 << (bits - 1)), bits, sg))):
                raise Panic('attempt to negate with overflow (abs)')
            return Int(-x.t, bits, sg)
        return x
    if meth == 'unsigned_abs':
        neg = e.binop('Lt', x, Int(0, bits, sg))
        if e.truth(neg):
            return Int(-x.t, bits, False)
        return Int(x.t, bits, False)
    if meth == 'abs_diff':
        lt = e.binop('Lt', x, a[1])
        if e.truth(lt):
            r = e.binop('Sub', a[1], x)
        else:
            r = e.binop('Sub', x, a[1])
        return Int(r.t, bits, False)
    if meth == 'is_power_of_two':
        v = e.concretize(x)
        return v != 0 and (v & (v - 1)) == 0
    if meth in ('leading_zeros', 'trailing_zeros', 'count_ones'):
        v = e.concretize(x)
        if meth == 'count_ones':
            return Int(bin(v).count('1'), 32)
        if meth == 'leading_zeros':
            return Int(bits - v.bit_length(), 32)
        return Int(bits if v == 0 else (v & -v).bit_length() - 1, 32)
    if meth == 'checked_div':
        if e.truth(e.binop('Eq', a[1], Int(0, bits, sg))):
            return none()
        return some(e.binop('Div', x, a[1]))
    if meth in ('to_le', 'from_le'):
        return x
    raise Unsupported('int method ' + meth)


@model(r'core::num::<impl (\w+)>::(from_le_bytes|to_le_bytes|from_be_bytes|to_be_bytes|from_ne_bytes|to_ne_bytes)', 'integer <-> bytes')
def _int_bytes(e, c, a):
    m = re.match(r'core::num::<impl (\w+)>::(\w+)$', c)
    ty, meth = m.group(1), m.group(2)
    bits, sg = int_ty(ty)
    n = bits // 8
    little = '_be_' not in meth
    if meth.startswith('from'):
        bs = [cl.v for cl in a[0].e]
        if not little:
            bs = bs[::-1]
        if all(type(b.t) is int for b in bs):
            v = 0
            for i, b in enumerate(bs):
                v |= b.t << (8 * i)
            return Int(v, bits, sg)
        t = z3.Concat(*[b.z() for b in reversed(bs)]) if n > 1 else bs[0].z()
        return Int(t, bits, sg)
    x = a[0]
    out = []
    for i in range(n):
        if type(x.t) is int:
            out.append(Int((x.t >> (8 * i)) & 0xff, 8))
        else:
            out.append(Int(z3.Extract(8 * i + 7, 8 * i, x.t), 8))
    if not little:
        out = out[::-1]
    return Seq(out, arr=True, elt='u8')


@model(r'core::f64::<impl f64>::(from_le_bytes|from_bits|to_bits|abs|max|min|is_nan|is_finite|is_infinite|to_int_unchecked::<\w+>|sqrt|floor|ceil|round|trunc|signum|powi|is_sign_negative|total_cmp|clamp|mul_add|ln|exp|log2|log10)', 'f64 methods')
def _f64_methods(e, c, a):
    meth = c.split('>::', 1)[1]
    import math, struct
    if meth == 'from_le_bytes':
        bs = [cl.v for cl in a[0].e]
        if all(type(b.t) is int for b in bs):
            return Float(struct.unpack('<d', bytes(b.t for b in bs))[0])
        t = z3.Concat(*[b.z() for b in reversed(bs)])
        return Float(z3.fpBVToFP(t, z3.Float64()))
    if meth == 'from_bits':
        if type(a[0].t) is int:
            return Float(struct.unpack('<d', struct.pack('<Q', a[0].t))[0])
        return Float(z3.fpBVToFP(a[0].t, z3.Float64()))
    x = a[0]
    if meth == 'abs':
        return Float(abs(x.t) if x.is_conc() else z3.fpAbs(x.t))
    if meth in ('max', 'min'):
        y = a[1]
        if x.is_conc() and y.is_conc():
            if math.isnan(x.t):
                return y
            if math.isnan(y.t):
                return x
            return Float(max(x.t, y.t) if meth == 'max' else min(x.t, y.t))
        return Float(z3.fpMax(x.z(), y.z()) if meth == 'max' else z3.fpMin(x.z(), y.z()))
    if meth == 'is_nan':
        return math.isnan(x.t) if x.is_conc() else z3.fpIsNaN(x.t)
    if meth == 'is_finite':
        return math.isfinite(x.t) if x.is_conc() else z3.Not(z3.Or(z3.fpIsNaN(x.t), z3.fpIsInf(x.t)))
    if meth == 'is_infinite':
        return math.isinf(x.t) if x.is_conc() else z3.fpIsInf(x.t)
    if meth.startswith('to_int_unchecked'):
        ty = meth[meth.index('<') + 1:-1]
        bits, sg = int_ty(ty)
        lo, hi = (-(1 << (bits - 1)), (1 << (bits - 1)) - 1) if sg else (0, (1 << bits) - 1)
        if x.is_conc():
            if math.isnan(x.t) or math.isinf(x.t) or not (lo - 1 < x.t < hi + 1):
                raise Panic('UB: f64::to_int_unchecked on %r (not finite or out of range for %s)' % (x.t, ty), 'ub')
            return Int(int(x.t), bits, sg)
        # precondition of the unchecked conversion: finite and in range after truncation
        okc = z3.And(z3.Not(z3.fpIsNaN(x.t)), z3.Not(z3.fpIsInf(x.t)),
                     z3.fpGT(x.t, z3.FPVal(float(lo - 1), z3.Float64())), z3.fpLT(x.t, z3.FPVal(float(hi + 1), z3.Float64())))
        e.stub_hit('precondition:to_int_unchecked')
        if not e.truth(okc):
            raise Panic('UB: f64::to_int_unchecked precondition violated (NaN/inf/out of range for %s)' % ty, 'ub')
        return Int(z3.fpToSBV(z3.RTZ(), x.t, z3.BitVecSort(bits)) if sg else z3.fpToUBV(z3.RTZ(), x.t, z3.BitVecSort(bits)), bits, sg)
    raise Unsupported('f64 method ' + meth)


@model(r'(?:core|std)::f(?:32|64)::<impl f(?:32|64)>::(fract|trunc|floor|ceil|round|abs|is_nan|is_finite|is_infinite|signum)', 'float methods on concrete values (values of f32 are kept as the exact double)')
def _float_methods_conc(e, c, a):
    import math
    meth = c.rsplit('::', 1)[1]
    x = a[0]
    if not x.is_conc():
        raise Unsupported('float method %s on a symbolic value' % meth)
    v = x.t
    if meth == 'is_nan':
        return math.isnan(v)
    if meth == 'is_finite':
        return math.isfinite(v)
    if meth == 'is_infinite':
        return math.isinf(v)
    if math.isnan(v):
        return Float(v)
    if meth == 'abs':
        return Float(abs(v))
    if meth == 'signum':
        return Float(math.copysign(1.0, v))
    if math.isinf(v):
        return Float(float('nan') if meth == 'fract' else v)
    if meth == 'trunc':
        return Float(float(math.trunc(v)))
    if meth == 'fract':
        return Float(v - math.trunc(v))
    if meth == 'floor':
        return Float(float(math.floor(v)))
    if meth == 'ceil':
        return Float(float(math.ceil(v)))
    r = math.floor(abs(v) + 0.5)
    return Float(math.copysign(r, v))


@model(r'<\{closure@.*\} as Fn(?:Mut|Once)?<\(.*\)>>::call(?:_mut|_once)?|<&(?:mut )?\{closure@.*\} as Fn(?:Mut|Once)?<\(.*\)>>::call(?:_mut|_once)?', 'direct call of a closure value (Fn::call with the argument tuple)')
def _closure_call(e, c, a):
    tup = a[1]
    args = [cl.v for cl in tup.f] if isinstance(tup, Agg) else [tup]
    return e.call_closure(a[0], args)


# ---------------------------------------------------------------- cmp / ord
@model(r'<(u8|u16|u32|u64|usize|i8|i16|i32|i64|isize|char) as Ord>::(max|min|cmp|clamp)', 'int Ord')
def _ord_minmax(e, c, a):
    meth = c.rsplit('::', 1)[1]
    x, y = deref_all(a[0]), deref_all(a[1])
    if meth == 'cmp':
        return e.binop('Cmp', x, y)
    le = e.binop('Le', x, y)
    if isinstance(le, bool):
        return (x if le else y) if meth == 'min' else (y if le else x)
    return Int(z3.If(le, x.z(), y.z()) if meth == 'min' else z3.If(le, y.z(), x.z()), x.bits, x.sg)


@model(r'std::cmp::max::<.*>|std::cmp::min::<.*>|core::cmp::max::<.*>|core::cmp::min::<.*>')
def _cmp_minmax(e, c, a):
    x, y = a
    meth = 'max' if '::max::' in c else 'min'
    le = e.binop('Le', x, y)
    if isinstance(le, bool):
        return (x if le else y) if meth == 'min' else (y if le else x)
    return Int(z3.If(le, x.z(), y.z()) if meth == 'min' else z3.If(le, y.z(), x.z()), x.bits, x.sg)


@model(r'<(u8|u16|u32|u64|usize|i8|i16|i32|i64|isize|char|bool) as PartialEq>::(eq|ne)|<(u8|u16|u32|u64|usize|i8|i16|i32|i64|isize|char) as PartialOrd>::(lt|le|gt|ge|partial_cmp)', 'int PartialEq/PartialOrd')
def _int_peq(e, c, a):
    meth = c.rsplit('::', 1)[1]
    x, y = deref_all(a[0]), deref_all(a[1])
    if meth == 'partial_cmp':
        return some(e.binop('Cmp', x, y))
    return e.binop({'eq': 'Eq', 'ne': 'Ne', 'lt': 'Lt', 'le': 'Le', 'gt': 'Gt', 'ge': 'Ge'}[meth], x, y)


def values_eq(e, x, y):
    """structural equality of two values -> python bool / z3 Bool (no forking)"""
    x = deref_all(x); y = deref_all(y)
    if isinstance(x, Int) and isinstance(y, Int):
        return e.binop('Eq', x, y)
    if is_bool(x) and is_bool(y):
        return e.binop('Eq', x, y)
    if isinstance(x, (Str, StrRef)) and isinstance(y, (Str, StrRef)):
        bx = x.b if isinstance(x, Str) else x.bytes(); by = y.b if isinstance(y, Str) else y.bytes()
        return bytes_eq(e, bx, by)
    if isinstance(x, Enum) and x.ty == 'Cow':
        return values_eq(e, x.f[0].v, y)
    if isinstance(y, Enum) and y.ty == 'Cow':
        return values_eq(e, x, y.f[0].v)
    if isinstance(x, (Seq, SliceRef)) and isinstance(y, (Seq, SliceRef)):
        cx = x.e if isinstance(x, Seq) else x.cells(); cy = y.e if isinstance(y, Seq) else y.cells()
        if len(cx) != len(cy):
            return False
        r = True
        for p, q in zip(cx, cy):
            r = b_and(r, values_eq(e, p.v, q.v))
            if r is False:
                return False
        return r
    if isinstance(x, Enum) and isinstance(y, Enum):
        if x.var != y.var:
            return False
        r = True
        for p, q in zip(x.f, y.f):
            r = b_and(r, values_eq(e, p.v, q.v))
        return r
    if isinstance(x, Agg) and isinstance(y, Agg):
        if len(x.f) != len(y.f):
            return False
        r = True
        for p, q in zip(x.f, y.f):
            r = b_and(r, values_eq(e, p.v, q.v))
        return r
    if isinstance(x, Float) and isinstance(y, Float):
        return e.binop('Eq', x, y)
    raise Unsupported('values_eq %r %r' % (x, y))


def bytes_eq(e, bx, by):
    if len(bx) != len(by):
        return False
    r = True
    for p, q in zip(bx, by):
        if p is q:
            continue
        if type(p.t) is int and type(q.t) is int:
            if p.t != q.t:
                return False
            continue
        r = b_and(r, p.z() == q.z())
    return r


@model(r'<(\[.*\]|Vec<.*>|&\[.*\]|&Vec<.*>|&&\[.*\]|\(.*\)|&\(.*\)) as PartialEq(<.*>)?>::(eq|ne)', 'slice/tuple PartialEq')
def _slice_eq(e, c, a):
    r = values_eq(e, a[0], a[1])
    return b_not(r) if c.endswith('::ne') else r


@model(r'<Option<.*> as PartialEq>::(eq|ne)|<&?Option<.*> as PartialEq(<.*>)?>::(eq|ne)')
def _opt_eq(e, c, a):
    r = values_eq(e, a[0], a[1])
    return b_not(r) if c.endswith('::ne') else r


@model(r'<Ordering as PartialEq>::eq|<std::cmp::Ordering as PartialEq>::eq')
def _ordering_eq(e, c, a):
    return e.binop('Eq', deref_all(a[0]), deref_all(a[1]))


# ---------------------------------------------------------------- Clone / Default / mem
def clone_value(e, v):
    if isinstance(v, Agg) and v.ty and not v.ty.startswith('{closure') and (v.ty, 'Clone', 'clone') in e.prog.by_key and False:
        return e.call('<%s as Clone>::clone' % v.ty, [Ref(Cell(v))])
    return deep_clone(v)


@model(r'<.* as Clone>::clone|<.* as ToOwned>::to_owned', 'Clone::clone (structural)')
def _clone(e, c, a):
    v = a[0]
    if isinstance(v, StrRef):
        return Str(list(v.bytes())) if 'ToOwned' in c else v
    if isinstance(v, SliceRef):
        if 'ToOwned' in c:
            return Seq([deep_clone(cl.v) for cl in v.cells()])
        return v
    v = v.c.v if isinstance(v, Ref) else v
    if isinstance(v, StrRef) and 'ToOwned' in c:
        return Str(list(v.bytes()))
    return deep_clone(v)


@model(r'<.* as Clone>::clone_from')
def _clone_from(e, c, a):
    a[0].c.v = deep_clone(deref_all(a[1]))
    return UNIT


def default_of(e, ty):
    ty = ty.strip()
    it = int_ty(ty)
    if it:
        if ty == 'bool':
            return False
        return Int(0, it[0], it[1])
    if ty == 'f64':
        return Float(0.0)
    h = strip_generics(ty).split('::')[-1]
    if h == 'Vec':
        return Seq([])
    if h == 'String':
        return Str()
    if h == 'Option':
        return none()
    if h in ('HashMap', 'BTreeMap', 'HashSet', 'BTreeSet'):
        from .m_map import new_map
        return new_map(h)
    if h == '()':
        return UNIT
    if h == 'Token' and 'tantivy' in ty:
        return _token_default(e, ty, [])
    if (h, 'Default', 'default') in e.prog.by_key:
        return e.call('<%s as Default>::default' % ty, [])
    if h.endswith('Builder') or h in ('DefaultHashBuilder', 'RandomState'):
        return Agg([], ty=h)
    raise Unsupported('Default for ' + ty)


@model(r'<.* as Default>::default', 'Default::default')
def _default(e, c, a):
    ty = c[1:c.rindex(' as Default>')]
    return default_of(e, ty)


@model(r'std::mem::swap::<.*>|core::mem::swap::<.*>')
def _swap(e, c, a):
    a[0].c.v, a[1].c.v = a[1].c.v, a[0].c.v
    return UNIT


@model(r'std::mem::replace::<.*>|core::mem::replace::<.*>')
def _replace(e, c, a):
    old = a[0].c.v; a[0].c.v = a[1]; return old


@model(r'std::mem::take::<.*>|core::mem::take::<.*>')
def _take(e, c, a):
    old = a[0].c.v
    m = re.match(r'(?:std|core)::mem::take::<(.*)>$', c)
    a[0].c.v = default_of(e, m.group(1))
    return old


@model(r'std::mem::drop::<.*>|core::mem::drop::<.*>|std::mem::forget::<.*>|drop::<.*>|core::mem::forget::<.*>')
def _drop(e, c, a):
    return UNIT


@model(r'std::mem::size_of::<.*>|core::mem::size_of::<.*>')
def _size_of(e, c, a):
    m = re.match(r'.*size_of::<(.*)>$', c)
    it = int_ty(m.group(1))
    if it:
        return usize(max(1, it[0] // 8))
    if m.group(1) == 'f64':
        return usize(8)
    raise Unsupported('size_of ' + m.group(1))


# ---------------------------------------------------------------- identity-like conversions
@model(r'<(.*) as Into<\1>>::into|<(.*) as From<\2>>::from', 'identity From/Into')
def _ident_into(e, c, a):
    return a[0]


@model(r'<&mut .* as Into<.*>>::into|<&.* as Into<&.*>>::into')
def _ref_into(e, c, a):
    return a[0]


@model(r'<.* as Borrow<.*>>::borrow|<.* as BorrowMut<.*>>::borrow_mut|<&.* as Deref>::deref|<&mut .* as Deref>::deref|<&mut .* as DerefMut>::deref_mut', 'Borrow/Deref of references')
def _borrow(e, c, a):
    v = a[0]
    if isinstance(v, Ref):
        inner = v.c.v
        if isinstance(inner, (Ref, SliceRef, StrRef)):
            return inner
        if isinstance(inner, Str):
            return StrRef(inner, 0, len(inner.b))
        if isinstance(inner, Seq) and not inner.arr and 'Borrow<[' in c:
            return SliceRef(inner, 0, len(inner.e))
    return v


@model(r'<Box<.*> as Deref>::deref|<Box<.*> as DerefMut>::deref_mut|<Arc<.*> as Deref>::deref|<Rc<.*> as Deref>::deref|<Box<.*> as AsRef<.*>>::as_ref|<Arc<.*> as AsRef<.*>>::as_ref')
def _box_deref(e, c, a):
    b = a[0].c.v if isinstance(a[0], Ref) else a[0]
    if isinstance(b, Opaque) and b.kind == 'box':
        return Ref(b.cell)
    raise Unsupported('box deref of %r' % (b,))


@model(r'Box::<.*>::new|Arc::<.*>::new|Rc::<.*>::new|Box::<.*>::pin')
def _box_new(e, c, a):
    return Opaque('box', cell=Cell(a[0]), rt='Box', clone=None)


@model(r'<Arc<.*> as Clone>::clone|<Rc<.*> as Clone>::clone|Arc::<.*>::clone')
def _arc_clone(e, c, a):
    return deref_all(a[0])


@model(r'<(.*) as TryFrom<\1>>::try_from|<(.*) as TryInto<\2>>::try_into')
def _ident_try(e, c, a):
    return ok(a[0])


@model(r'std::convert::identity::<.*>|core::convert::identity::<.*>')
def _identity(e, c, a):
    return a[0]


@model(r'std::ptr::drop_in_place::<.*>|core::ptr::drop_in_place::<.*>')
def _drop_in_place(e, c, a):
    return UNIT


# ---------------------------------------------------------------- generic (type-parameter) Into / AsRef
@dyn('Into', 'into')
def _dyn_into(e, c, a):
    pc = parse_callee(c)
    tgt = pc['trait_full']
    tgt = tgt[tgt.index('<') + 1:-1] if '<' in tgt else ''
    from srcindex import head_name
    h = head_name(tgt)
    v = a[0]
    from . import rt_type
    from engine import normalize_ty
    rt = rt_type(v)
    src_full = pc.get('self_full') or ''
    if normalize_ty(src_full) == normalize_ty(tgt):
        return v
    cands = e.prog.by_key.get((h, 'From', 'from'))
    if cands:
        pick = None
        for f in cands:
            t = (f.debug.get('__impl__') or (0, 0, 0, ''))[3] or ''
            if '<' in t and normalize_ty(t[t.index('<') + 1:-1]) == normalize_ty(src_full):
                pick = f; break
        if pick is None and len(cands) == 1:
            pick = cands[0]
        if pick is None:
            pick = _pick_from(e, cands, v)
        return e.run(pick, [v], '<%s as From<%s>>::from' % (tgt, src_full or rt))
    if h == 'String':
        from .m_str import str_bytes
        if isinstance(v, Str):
            return v
        return Str(list(str_bytes(v)))
    if h == 'Vec':
        if isinstance(v, Seq):
            return v
        from .m_seq import seq_values
        return Seq([deep_clone(x) for x in seq_values(v)])
    if h == 'Cow':
        return e.call('<%s as Into<%s>>::into' % ('String' if isinstance(v, Str) else '&str', tgt), [v])
    if h == rt:
        return v
    cands = e.prog.by_key.get((h, 'From', 'from'))
    if cands:
        return e.run(cands[-1] if len(cands) == 1 else _pick_from(e, cands, v), [v], '<%s as From<%s>>::from' % (tgt, rt))
    if h == 'Box' and 'dyn' in tgt:
        return Opaque('box', cell=Cell(v), rt='Box')        # Box<dyn Error> from any error value
    raise Unsupported('dynamic Into<%s> for runtime type %s' % (tgt, rt))


def _pick_from(e, cands, v):
    from . import rt_type
    rt = rt_type(v)
    for f in cands:
        t = (f.debug.get('__impl__') or (0, 0, 0, ''))[3] or ''
        if rt and rt in t:
            return f
    return cands[-1]


@dyn('AsRef', 'as_ref')
def _dyn_as_ref(e, c, a):
    pc = parse_callee(c)
    tgt = pc['trait_full']
    tgt = tgt[tgt.index('<') + 1:-1] if '<' in tgt else ''
    v = a[0]
    if tgt == 'str':
        from .m_str import as_strref_any
        return as_strref_any(v)
    if tgt.startswith('['):
        from .m_seq import as_slice
        inner = deref_all(v)
        if isinstance(inner, (Str, StrRef)):
            from .m_str import as_strref_any
            r = as_strref_any(inner)
            return Opaque('strbytes', s=r.s, lo=r.lo, hi=r.hi, rt='[]')
        return as_slice(v)
    raise Unsupported('dynamic AsRef<%s>' % tgt)


@dyn('From', 'from')
def _dyn_from(e, c, a):
    pc = parse_callee(c)
    return _dyn_into(e, '<%s as Into<%s>>::into' % ('X', pc['self']), a)


@dyn('AddAssign', 'add_assign')
def _dyn_add_assign(e, c, a):
    x = a[0].c
    y = deref_all(a[1])
    if isinstance(x.v, Int):
        r = e.binop('AddWithOverflow', x.v, y)
        if e.truth(r.f[1].v):
            raise Panic('attempt to add with overflow (AddAssign)')
        x.v = r.f[0].v
        return UNIT
    raise Unsupported('dynamic AddAssign on %r' % (x.v,))


@model(r'<(u8|u16|u32|u64|usize|i8|i16|i32|i64|isize) as AddAssign<&\1>>::add_assign|<(u8|u16|u32|u64|usize|i8|i16|i32|i64|isize) as AddAssign>::add_assign')
def _int_add_assign(e, c, a):
    return _dyn_add_assign(e, c, a)


@dyn('ToString', 'to_string')
def _dyn_to_string(e, c, a):
    v = deref_all(a[0])
    if isinstance(v, (Str, StrRef)):
        from .m_str import str_bytes
        return Str(list(str_bytes(v)))
    if isinstance(v, Int) and not (v.org is not None and v.org[0] == 'char'):
        c_ = e.concretize(v)        # Display of an integer: decimal digits (a symbolic value forks over its feasible values)
        if v.sg and c_ >= 1 << (v.bits - 1):
            c_ -= 1 << v.bits
        return mk_str(str(c_))
    return mk_str('<%s>' % (getattr(v, 'ty', None) or type(v).__name__))      # Display of an error value: text abstracted (formatting is not the subject)


# ---------------------------------------------------------------- tantivy::tokenizer::Token (plain struct stub) / boxed errors
@model(r'<tantivy::tokenizer::Token as Default>::default|<Token as Default>::default', 'tantivy Token::default (plain struct: offset_from, offset_to, position, text, position_length)')
def _token_default(e, c, a):
    return Agg([usize(0), usize(0), usize((1 << 64) - 1), Str(), usize(1)], ty='TantivyToken',
               names=['offset_from', 'offset_to', 'position', 'text', 'position_length'])


@model(r'<&str as Into<Box<dyn std::error::Error>>>::into|<String as Into<Box<dyn std::error::Error>>>::into|<.* as Into<Box<dyn std::error::Error.*>>>::into|<Box<dyn std::error::Error.*> as From<.*>>::from')
def _into_box_error(e, c, a):
    return Opaque('box', cell=Cell(a[0]), rt='Box')


@model(r'<Arc<dyn .*> as Deref>::deref')
def _arc_dyn_deref(e, c, a):
    b = a[0].c.v if isinstance(a[0], Ref) else a[0]
    if isinstance(b, Opaque) and b.kind == 'box':
        return Ref(b.cell)
    raise Unsupported('Arc<dyn> deref of %r' % (b,))
