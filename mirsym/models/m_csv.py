"""The csv crate by contract (C19, manipulate_model): writer = csv-core's quoting rules (QuoteStyle::Necessary), reader = a transcription of csv-core's
NFA (`transition_nfa` of csv-core 0.1.13; end of input as in `transition_final_dfa`) driven by the ReaderBuilder options the code sets; serde (de)serialisation of a flat
struct of String fields by header name.  Bytes may be symbolic: every comparison with a special byte is an engine decision.  The model is validated
differentially against the real csv crate (replay op `csv_roundtrip`)."""
import re

from values import *
from . import model
from .m_core import deref_all
from .m_str import str_bytes


class CsvCfg:
    def __init__(self):
        self.delimiter = 0x2C; self.quote = 0x22; self.escape = None; self.double_quote = True; self.quoting = True
        self.comment = None; self.has_headers = True; self.flexible = False; self.term = 'crlf'; self.trim = False


class CsvWriter(Opaque):
    def __init__(self, target, cfg):
        Opaque.__init__(self, 'csvwriter')
        self.rt = 'Writer'; self.target = target; self.cfg = cfg; self.header_written = False; self.nfields = None


class CsvReader(Opaque):
    def __init__(self, source, cfg):
        Opaque.__init__(self, 'csvreader')
        self.rt = 'Reader'; self.source = source; self.cfg = cfg; self.records = None; self.headers = None; self.pos = 0


class CsvBuilder(Opaque):
    def __init__(self, kind):
        Opaque.__init__(self, 'csvbuilder')
        self.rt = kind; self.cfg = CsvCfg()


def file_data(f):
    f = deref_all(f)
    d = getattr(f, 'data', None)
    if d is None:
        raise Unsupported('csv over %r (only files of the modelled file system)' % (f,))
    return d


def beq(e, b, k):
    """is byte value b equal to the concrete byte k (python bool; forks when undetermined)"""
    if k is None:
        return False
    if type(b.t) is int:
        return b.t == k
    return e.truth(e.binop('Eq', Int(b.t, 8), Int(k, 8)))


def is_term(e, cfg, b):
    if cfg.term == 'crlf':
        return beq(e, b, 0x0D) or beq(e, b, 0x0A)
    return beq(e, b, cfg.term)


# ---------------------------------------------------------------- writer
def write_field(e, cfg, out, field, first):
    if not first:
        out.append(Int(cfg.delimiter, 8))
    need = False
    for b in field:
        if beq(e, b, cfg.delimiter) or beq(e, b, cfg.quote) or beq(e, b, 0x0D) or beq(e, b, 0x0A) or (cfg.comment is not None and beq(e, b, cfg.comment)):
            need = True; break
    if not need:
        out.extend(field)
        return
    out.append(Int(cfg.quote, 8))
    for b in field:
        if beq(e, b, cfg.quote):
            out.append(Int(cfg.quote, 8))
        out.append(b)
    out.append(Int(cfg.quote, 8))


def write_record(e, w, fields):
    cfg = w.cfg
    out = file_data(w.target)
    if w.nfields is not None and not cfg.flexible and len(fields) != w.nfields:
        return False
    w.nfields = len(fields)
    if len(fields) == 1 and len(fields[0]) == 0:
        out.extend([Int(cfg.quote, 8), Int(cfg.quote, 8)])
    else:
        for i, f in enumerate(fields):
            write_field(e, cfg, out, f, i == 0)
    out.append(Int(0x0A, 8))
    return True


def struct_fields(e, v, ty=None):
    """flat struct of strings -> (names, [byte lists])"""
    v = deref_all(v)
    if not isinstance(v, Agg):
        raise Unsupported('csv serialisation of %r' % (v,))
    names = e.prog.src.structs.get(v.ty)
    if names is None:
        raise Unsupported('csv serialisation: struct %s not found in the sources' % v.ty)
    vals = []
    for c in v.f:
        x = deref_all(c.v)
        if not isinstance(x, (Str, StrRef)):
            raise Unsupported('csv serialisation of a non-string field %r' % (x,))
        vals.append(list(str_bytes(x)))
    return list(names), vals


@model(r'(?:csv::)?Writer::<.*>::from_writer|(?:csv::)?WriterBuilder::from_writer::<.*>', 'csv::Writer::from_writer (contract)')
def _w_from_writer(e, c, a):
    if len(a) == 2:
        b = deref_all(a[0])
        return CsvWriter(a[1], b.cfg)
    return CsvWriter(a[0], CsvCfg())


@model(r'(?:csv::)?Writer::<.*>::serialize::<.*>', 'csv::Writer::serialize (contract: header from the struct field names, QuoteStyle::Necessary)')
def _w_serialize(e, c, a):
    w = deref_all(a[0])
    names, vals = struct_fields(e, a[1])
    if w.cfg.has_headers and not w.header_written:
        w.header_written = True
        write_record(e, w, [[Int(x, 8) for x in n.encode()] for n in names])
    if not write_record(e, w, vals):
        return err(Agg([], ty='csv::Error::UnequalLengths'))
    return ok(UNIT)


@model(r'(?:csv::)?Writer::<.*>::flush')
def _w_flush(e, c, a):
    return ok(UNIT)


# ---------------------------------------------------------------- reader (csv-core NFA)
def parse_records(e, cfg, data):
    """-> list of records (lists of byte lists)"""
    S = 'StartRecord'
    records = []; fields = []; cur = []
    i = 0; n = len(data)
    state = S

    def enter(st):
        nonlocal fields, cur
        if st in ('EndRecord', 'CRLF', 'EndFieldDelim'):
            fields.append(cur); cur = []
        if st in ('EndRecord', 'CRLF'):
            records.append(fields); fields = []
    guard = 0
    while i < n:
        guard += 1
        if guard > 20 * n + 100:
            raise Unsupported('csv model does not terminate')
        c = data[i]
        act = 'eps'
        if state == 'StartRecord':
            if is_term(e, cfg, c):
                ns, act = 'StartRecord', 'discard'
            elif cfg.comment is not None and beq(e, c, cfg.comment):
                ns, act = 'InComment', 'discard'
            else:
                ns = 'StartField'
        elif state == 'EndRecord':
            ns = 'StartRecord'
        elif state == 'StartField':
            if cfg.quoting and beq(e, c, cfg.quote):
                ns, act = 'InQuotedField', 'discard'
            elif beq(e, c, cfg.delimiter):
                ns, act = 'EndFieldDelim', 'discard'
            elif is_term(e, cfg, c):
                ns = 'EndFieldTerm'
            else:
                ns, act = 'InField', 'copy'
        elif state == 'EndFieldDelim':
            ns = 'StartField'
        elif state == 'EndFieldTerm':
            ns = 'InRecordTerm'
        elif state == 'InField':
            if beq(e, c, cfg.delimiter):
                ns, act = 'EndFieldDelim', 'discard'
            elif is_term(e, cfg, c):
                ns = 'EndFieldTerm'
            else:
                ns, act = 'InField', 'copy'
        elif state == 'InQuotedField':
            if cfg.quoting and beq(e, c, cfg.quote):
                ns, act = 'InDoubleEscapedQuote', 'discard'
            elif cfg.quoting and cfg.escape is not None and beq(e, c, cfg.escape):
                ns, act = 'InEscapedQuote', 'discard'
            else:
                ns, act = 'InQuotedField', 'copy'
        elif state == 'InEscapedQuote':
            ns, act = 'InQuotedField', 'copy'
        elif state == 'InDoubleEscapedQuote':
            if cfg.quoting and cfg.double_quote and beq(e, c, cfg.quote):
                ns, act = 'InQuotedField', 'copy'
            elif beq(e, c, cfg.delimiter):
                ns, act = 'EndFieldDelim', 'discard'
            elif is_term(e, cfg, c):
                ns = 'EndFieldTerm'
            else:
                ns, act = 'InField', 'copy'
        elif state == 'InComment':
            if beq(e, c, 0x0A):
                ns, act = 'StartRecord', 'discard'
            else:
                ns, act = 'InComment', 'discard'
        elif state == 'InRecordTerm':
            if cfg.term == 'crlf' and beq(e, c, 0x0D):
                ns, act = 'CRLF', 'discard'
            else:
                ns, act = 'EndRecord', 'discard'
        elif state == 'CRLF':
            if beq(e, c, 0x0A):
                ns, act = 'StartRecord', 'discard'
            else:
                ns = 'StartRecord'
        else:
            raise Unsupported('csv state ' + state)
        if act != 'eps':
            i += 1
        if act == 'copy':
            cur.append(c)
        state = ns
        enter(state)
    # end of input: epsilon closure, then the final transition
    for _ in range(4):
        if state == 'EndRecord':
            state = 'StartRecord'
        elif state == 'EndFieldDelim':
            state = 'StartField'
        elif state == 'EndFieldTerm':
            state = 'InRecordTerm'
        else:
            break
    # csv-core's DFA (which the csv crate runs) finishes with a record from every state that is neither the start state nor a record-final state —
    # including InComment: an unterminated comment line at the end of the input yields a record with one empty field (found by the differential validation)
    if state in ('StartField', 'InField', 'InQuotedField', 'InEscapedQuote', 'InDoubleEscapedQuote', 'InRecordTerm', 'InComment'):
        enter('EndRecord')
    return records


@model(r'(?:csv::)?ReaderBuilder::new|(?:csv::)?WriterBuilder::new|<(?:csv::)?ReaderBuilder as Default>::default|<(?:csv::)?WriterBuilder as Default>::default')
def _builder_new(e, c, a):
    return CsvBuilder('ReaderBuilder' if 'Reader' in c else 'WriterBuilder')


@model(r'(?:csv::)?(?:Reader|Writer)Builder::(comment|delimiter|has_headers|flexible|quote|escape|double_quote|quoting|terminator|trim|quote_style|buffer_capacity)')
def _builder_opt(e, c, a):
    b = deref_all(a[0])
    opt = c.rsplit('::', 1)[1]
    v = deref_all(a[1])
    if opt in ('comment', 'escape'):
        setattr(b.cfg, opt, None if v.var == 'None' else e.concretize(v.f[0].v, 256))
    elif opt in ('delimiter', 'quote'):
        setattr(b.cfg, opt, e.concretize(v, 256))
    elif opt in ('has_headers', 'flexible', 'double_quote', 'quoting'):
        setattr(b.cfg, opt, bool(e.truth(v)))
    elif opt == 'buffer_capacity':
        pass
    else:
        raise Unsupported('csv builder option %s is not modelled' % opt)
    return a[0]


@model(r'(?:csv::)?Reader::<.*>::from_reader|(?:csv::)?ReaderBuilder::from_reader::<.*>', 'csv::Reader::from_reader (contract)')
def _r_from_reader(e, c, a):
    if len(a) == 2:
        b = deref_all(a[0])
        return CsvReader(a[1], b.cfg)
    return CsvReader(a[0], CsvCfg())


@model(r'(?:csv::)?Reader::<.*>::deserialize::<.*>|(?:csv::)?Reader::<.*>::into_deserialize::<.*>')
def _r_deserialize(e, c, a):
    m = re.search(r'deserialize::<(.*)>$', c)
    it = Opaque('csviter', rt='DeserializeRecordsIter', rdr=deref_all(a[0]), ty=m.group(1) if m else None)
    it.into_iter = lambda e_: it
    it.next_fn = csv_next
    return it


@model(r'<DeserializeRecordsIter<.*> as IntoIterator>::into_iter|<csv::DeserializeRecordsIter<.*> as IntoIterator>::into_iter')
def _r_into_iter(e, c, a):
    return a[0]


@model(r'<DeserializeRecordsIter<.*> as Iterator>::next|<csv::DeserializeRecordsIter<.*> as Iterator>::next',
       'csv deserialize iterator (contract: csv-core NFA, headers by name, non-flexible)')
def _r_next(e, c, a):
    return csv_next(e, deref_all(a[0]))


def csv_next(e, it):
    r = it.rdr
    cfg = r.cfg
    if r.records is None:
        r.records = parse_records(e, cfg, list(file_data(r.source)))
        r.pos = 0
        if cfg.has_headers and r.records:
            r.headers = r.records[0]; r.pos = 1
        r.first_len = len(r.records[0]) if r.records else None
    if r.pos >= len(r.records):
        return none()
    rec = r.records[r.pos]; r.pos += 1
    if not cfg.flexible and r.first_len is not None and len(rec) != r.first_len:
        return some(err(Agg([], ty='csv::Error::UnequalLengths')))
    names = e.prog.src.structs.get(it.ty)
    if names is None:
        raise Unsupported('csv deserialisation into %s' % it.ty)
    vals = []
    for k, nme in enumerate(names):
        if r.headers is not None:
            idx = None
            for j, h in enumerate(r.headers):
                hb = [Int(x, 8) for x in nme.encode()]
                if len(h) == len(hb) and all(beq(e, x, y.t) for x, y in zip(h, hb)):
                    idx = j        # serde: a repeated column name is a duplicate-field error; not reachable with the writer's own header
                    break
            if idx is None or idx >= len(rec):
                return some(err(Agg([], ty='csv::Error::Deserialize(missing field)')))
        else:
            idx = k
            if idx >= len(rec):
                return some(err(Agg([], ty='csv::Error::Deserialize(invalid length)')))
        s = Str(); s.b.extend(rec[idx])
        vals.append(s)
    e.prog.struct_names.setdefault(it.ty, list(names))
    return some(ok(Agg(vals, ty=it.ty, names=e.prog.struct_names[it.ty])))
