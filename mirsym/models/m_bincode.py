"""bincode 2.0.1 (config::standard()) by contract: a *typed token stream*.

Every primitive Encode appends one token; every primitive Decode consumes one token of the same
type or returns DecodeError (UnexpectedEnd at the end of input, a type error on a foreign token).
Containers are length + items.  The repository's own derived / hand-written Encode/Decode bodies
are executed as MIR; only the leaves are modelled.  A serialised buffer is a Vec<u8> whose elements
are real bytes (e.g. the model magic) and token objects; one token counts as one element, so slice
arithmetic over "bytes consumed" stays meaningful.  The byte-level format of bincode (varints) and
truncation *inside* a token are outside the model (stated in DESIGN.md).
"""
import re
import z3

from values import *
from . import model, dyn
from .m_core import deref_all
from .m_seq import seq_values, seq_of, sub_slice, seq_len
from .m_str import str_bytes
from engine import int_ty, normalize_ty
from mirparse import split_top, strip_generics
from srcindex import head_name


class Tok(Opaque):
    """one encoded primitive"""
    def __init__(self, ty, val):
        Opaque.__init__(self, 'tok')
        self.ty = ty; self.val = val; self.rt = 'u8'

    def clone(self):
        return self         # immutable

    def __repr__(self):
        return 'Tok(%s,%r)' % (self.ty, self.val)


class Encoder(Opaque):
    def __init__(self, sink):
        Opaque.__init__(self, 'encoder')
        self.sink = sink        # callable(e, tok) -> None | error value
        self.rt = 'Encoder'


class Decoder(Opaque):
    def __init__(self, fetch):
        Opaque.__init__(self, 'decoder')
        self.fetch = fetch      # callable(e) -> element | None at end | ('ioerr', v)
        self.consumed = 0
        self.rt = 'Decoder'


def dec_err(kind, *fields):
    # a real enum value (variant order in engine.STD_ENUMS): code that matches on the error kind (e.g. `Err(DecodeError::UnexpectedEnd { .. })`) sees the right variant
    if kind == 'UnexpectedEnd' and not fields:
        fields = (usize(1),)
    return Enum('Err', [Enum(kind, list(fields), 'DecodeError')], 'Result')


def enc_err(kind):
    return Enum('Err', [Agg([], ty='EncodeError::' + kind)], 'Result')


def unref_ty(t):
    t = t.strip()
    while t.startswith('&'):
        t = t[1:].lstrip()
        t = re.sub(r"^'\w+\s+", '', t)
        if t.startswith('mut '):
            t = t[4:]
    return t


def put(e, enc, tok):
    r = enc.sink(e, tok)
    return r


# ---------------------------------------------------------------- encode
def encode_value(e, ty, val, enc):
    """encode `val` of static type text `ty` -> None | Err-result"""
    ty = unref_ty(ty)
    val = deref_all(val)
    it = int_ty(ty)
    if it is not None or ty in ('bool',):
        return put(e, enc, Tok(ty, val))
    h = head_name(ty)
    if ty.startswith('[') or h == 'Vec':
        inner = ty[ty.index('<') + 1:-1] if h == 'Vec' else ty[1:ty.rindex(']')].split(';')[0]
        vals = seq_values(val)
        if inner.strip() == 'u8':
            # byte strings are one token carrying their elements (real bytes and/or nested tokens)
            return put(e, enc, Tok('bytes', list(vals)))
        r = put(e, enc, Tok('len', len(vals)))
        if r is not None:
            return r
        for v in vals:
            r = encode_value(e, inner, v, enc)
            if r is not None:
                return r
        return None
    if h in ('String', 'str'):
        return put(e, enc, Tok('str', list(str_bytes(val))))
    if h == 'Option':
        inner = ty[ty.index('<') + 1:-1]
        if val.var == 'None':
            return put(e, enc, Tok('variant', 0))
        r = put(e, enc, Tok('variant', 1))
        if r is not None:
            return r
        return encode_value(e, inner, val.f[0].v, enc)
    if ty.startswith('('):
        parts = split_top(ty[1:-1])
        for p, c in zip(parts, val.f):
            r = encode_value(e, p, c.v, enc)
            if r is not None:
                return r
        return None
    # a type of the repository: its own Encode impl (MIR)
    r = e.call('<%s as Encode>::encode::<E>' % ty, [Ref(Cell(val)), Ref(Cell(enc))])
    if isinstance(r, Enum) and r.var == 'Err':
        return r
    return None


@model(r'<.* as Encode>::encode::<.*>', 'bincode Encode of std types (typed token stream)')
def _encode(e, c, a):
    ty = c[1:c.rindex(' as Encode>')]
    enc = deref_all(a[1])
    r = encode_value_std(e, ty, a[0], enc)
    return r if r is not None else ok(UNIT)


def encode_value_std(e, ty, val, enc):
    ty0 = unref_ty(ty)
    h = head_name(ty0)
    if int_ty(ty0) is None and ty0 != 'bool' and not ty0.startswith('[') and not ty0.startswith('(') and h not in ('Vec', 'String', 'str', 'Option'):
        # generic parameter resolved at run time: dispatch on the value
        v = deref_all(val)
        from . import rt_type
        rt = rt_type(v)
        if isinstance(v, Int):
            return put(e, enc, Tok(('i' if v.sg else 'u') + str(v.bits), v))
        if isinstance(v, (Str, StrRef)):
            return put(e, enc, Tok('str', list(str_bytes(v))))
        if isinstance(v, Seq):
            vals = seq_values(v)
            if vals and isinstance(vals[0], Int) and vals[0].bits == 8 and not vals[0].sg or v.elt == 'u8':
                return put(e, enc, Tok('bytes', list(vals)))
            r = put(e, enc, Tok('len', len(vals)))
            if r is not None:
                return r
            for x in vals:
                r = encode_value_std(e, '?', x, enc)
                if r is not None:
                    return r
            return None
        if isinstance(v, (Agg, Enum)) and rt:
            r = e.call('<%s as Encode>::encode::<E>' % rt, [Ref(Cell(v)), Ref(Cell(enc))])
            return r if isinstance(r, Enum) and r.var == 'Err' else None
        raise Unsupported('bincode encode of %s / %r' % (ty, v))
    return encode_value(e, ty0, val, enc)


# ---------------------------------------------------------------- decode
def take(e, dec, want):
    """-> (tok, None) | (None, Err-result)"""
    x = dec.fetch(e)
    if x is None:
        return None, dec_err('UnexpectedEnd')
    if isinstance(x, tuple) and x[0] == 'ioerr':
        return None, dec_err('Io', x[1], usize(0))
    dec.consumed += 1
    if not isinstance(x, Tok):
        return None, dec_err('Foreign')         # a raw byte where a token is expected: foreign input
    if want is not None and x.ty != want and not (want in ('usize', 'u64', 'len') and x.ty in ('usize', 'u64', 'len')):
        return None, dec_err('TypeMismatch')
    return x, None


def decode_value(e, ty, dec):
    """-> Result enum (Ok(value) | Err(DecodeError))"""
    ty = ty.strip()
    it = int_ty(ty)
    if it is not None or ty == 'bool':
        t, er = take(e, dec, ty)
        if er is not None:
            return er
        v = t.val
        if isinstance(v, int):
            v = Int(v, it[0], it[1])
        return ok(v)
    h = head_name(ty)
    if ty.startswith('&[') or ty.startswith("&'") and '[u8]' in ty:
        t, er = take(e, dec, 'bytes')
        if er is not None:
            return er
        s = Seq(list(t.val), elt='u8')
        return ok(SliceRef(s, 0, len(s.e)))
    if h == 'Vec':
        inner = ty[ty.index('<') + 1:-1]
        if inner.strip() == 'u8':
            t, er = take(e, dec, 'bytes')
            if er is not None:
                return er
            return ok(Seq(list(t.val), elt='u8'))
        t, er = take(e, dec, 'len')
        if er is not None:
            return er
        n = t.val if isinstance(t.val, int) else e.concretize(t.val, 4096)
        out = []
        for _ in range(n):
            r = decode_value(e, inner, dec)
            if r.var == 'Err':
                return r
            out.append(r.f[0].v)
        return ok(Seq(out))
    if h == 'String':
        t, er = take(e, dec, 'str')
        if er is not None:
            return er
        from .m_str import utf8_valid
        if not utf8_valid(e, t.val):
            return dec_err('Utf8')
        return ok(Str(list(t.val)))
    if h == 'Option':
        inner = ty[ty.index('<') + 1:-1]
        t, er = take(e, dec, 'variant')
        if er is not None:
            return er
        if t.val == 0:
            return ok(none())
        r = decode_value(e, inner, dec)
        if r.var == 'Err':
            return r
        return ok(some(r.f[0].v))
    if ty.startswith('('):
        out = []
        for p in split_top(ty[1:-1]):
            r = decode_value(e, p, dec)
            if r.var == 'Err':
                return r
            out.append(r.f[0].v)
        return ok(Agg(out))
    # a type of the repository
    key = None
    for tr, m in (('Decode', 'decode'), ('BorrowDecode', 'borrow_decode')):
        if e.prog.by_key.get((h, tr, m)):
            key = (tr, m); break
    if key is None:
        raise Unsupported('bincode decode of ' + ty)
    if key[0] == 'Decode':
        return e.call('<%s as Decode<Ctx>>::decode::<D>' % ty, [Ref(Cell(dec))])
    return e.call("<%s as BorrowDecode<'_, Ctx>>::borrow_decode::<D>" % ty, [Ref(Cell(dec))])


@model(r"<.* as Decode<.*>>::decode::<.*>|<.* as BorrowDecode<'_, .*>>::borrow_decode::<.*>", 'bincode Decode of std types (typed token stream)')
def _decode(e, c, a):
    m = re.match(r"<(.*) as (?:Borrow)?Decode<", c)
    # the type text is everything before the LAST ' as Decode<' / ' as BorrowDecode<'
    k = max(c.rfind(' as Decode<'), c.rfind(' as BorrowDecode<'))
    ty = c[1:k]
    return decode_value(e, ty, deref_all(a[0]))


# ---------------------------------------------------------------- entry points
@model(r'standard|bincode::config::standard')
def _standard(e, c, a):
    return Agg([], ty='Configuration')


def _generic_arg(c, idx=0):
    m = re.search(r'::<(.*)>$', c)
    parts = [p for p in split_top(m.group(1)) if not p.startswith("'")]
    return parts[idx]


@model(r'encode_to_vec::<.*>|bincode::encode_to_vec::<.*>', 'bincode::encode_to_vec')
def _encode_to_vec(e, c, a):
    ty = _generic_arg(c)
    out = []
    enc = Encoder(lambda e_, tok: out.append(tok))
    r = encode_value(e, ty, a[0], enc)
    if r is not None:
        return r
    return ok(Seq(out, elt='u8'))


@model(r'encode_into_writer::<.*>|bincode::encode_into_writer::<.*>', 'bincode::encode_into_writer')
def _encode_into_writer(e, c, a):
    ty = _generic_arg(c)
    wtr = a[1]

    def sink(e_, tok):
        one = Seq([tok], elt='u8')
        r = e_.call('<%s as Writer>::write' % (deref_all(wtr).ty), [wtr, SliceRef(one, 0, 1)])
        if isinstance(r, Enum) and r.var == 'Err':
            return r
        return None
    r = encode_value(e, ty, a[0], Encoder(sink))
    return r if r is not None else ok(UNIT)


@model(r'encode_into_std_write::<.*>|bincode::encode_into_std_write::<.*>', 'bincode::encode_into_std_write')
def _encode_into_std_write(e, c, a):
    ty = _generic_arg(c)
    wtr = a[1]
    count = [0]

    def sink(e_, tok):
        from .m_io import writer_write
        er = writer_write(e_, wtr, [tok])
        if er is not None:
            return Enum('Err', [Agg([er], ty='EncodeError::Io')], 'Result')
        count[0] += 1
        return None
    r = encode_value(e, ty, a[0], Encoder(sink))
    return r if r is not None else ok(usize(count[0]))


def slice_decoder(vals):
    st = {'i': 0}

    def fetch(e_):
        if st['i'] >= len(vals):
            return None
        st['i'] += 1
        return vals[st['i'] - 1]
    return Decoder(fetch)


@model(r'decode_from_slice::<.*>|bincode::decode_from_slice::<.*>|borrow_decode_from_slice::<.*>|bincode::borrow_decode_from_slice::<.*>', 'bincode::decode_from_slice')
def _decode_from_slice(e, c, a):
    ty = _generic_arg(c)
    vals = seq_values(a[0])
    dec = slice_decoder(vals)
    r = decode_value(e, ty, dec)
    if r.var == 'Err':
        return r
    return ok(Agg([r.f[0].v, usize(dec.consumed)]))


@model(r'decode_from_std_read::<.*>|bincode::decode_from_std_read::<.*>', 'bincode::decode_from_std_read')
def _decode_from_std_read(e, c, a):
    ty = _generic_arg(c)
    rdr = a[0]

    def fetch(e_):
        from .m_io import reader_read_one
        return reader_read_one(e_, rdr)
    return decode_value(e, ty, Decoder(fetch))


