"""Models ("stubs") for everything the executed code calls outside the repository.

Two kinds (DESIGN.md §2.1(4)): std containers/iterators implemented natively on the value model
with their documented semantics *including their panics and the preconditions of unchecked
entry points*, and third-party crates constrained only by their documented contract.
Every model hit is counted per name and reported in the evidence.
"""
import re

from values import *

MODELS = []         # (compiled regex, fn)
DYN = {}            # (trait, method) -> fn   (dynamic dispatch fallback)
_lk = {}


def model(pattern, name=None):
    def deco(fn):
        fn.__mname__ = name or pattern
        MODELS.append((re.compile('(?:' + pattern + ')$'), fn))
        return fn
    return deco


def dyn(trait, method):
    def deco(fn):
        fn.__mname__ = '<dyn %s>::%s' % (trait, method)
        DYN[(trait, method)] = fn
        return fn
    return deco


def lookup(callee, pc=None):
    r = _lk.get(callee, 0)
    if r != 0:
        return r
    r = None
    for cand in (callee, _norm_paths(callee)):
        for pat, fn in MODELS:
            if pat.match(cand):
                r = fn; break
        if r is not None:
            break
    _lk[callee] = r
    return r


_NORM = re.compile(r'\b(?:core|alloc|std)::(?:result|option|vec|string|borrow|boxed|cell|cmp|mem|convert|collections::btree_map|collections::btree|collections|iter|fmt|ops|clone|default|hash|sync|rc)::(?=[A-Z])')


def _norm_paths(callee):
    """no_std builds print `core::result::Result`, `alloc::vec::Vec`, ...: normalise to the short names the model patterns use"""
    c = _NORM.sub('', callee)
    c = c.replace('core::slice::Iter', 'std::slice::Iter').replace('alloc::vec::IntoIter', 'std::vec::IntoIter').replace('alloc::vec::from_elem', 'std::vec::from_elem')
    c = c.replace('core::ops::Range', 'std::ops::Range').replace('alloc::slice::', 'std::slice::').replace('core::mem::', 'std::mem::').replace('core::cmp::', 'std::cmp::')
    return c


def rt_type(v):
    """runtime head type name of a value (through references)"""
    while isinstance(v, Ref):
        v = v.c.v
    if isinstance(v, Agg):
        return v.ty or '()'
    if isinstance(v, Enum):
        return v.ty
    if isinstance(v, Seq):
        return '[]' if v.arr else 'Vec'
    if isinstance(v, Str):
        return 'String'
    if isinstance(v, StrRef):
        return 'str'
    if isinstance(v, SliceRef):
        return '[]'
    if isinstance(v, Int):
        if v.org is not None and v.org[0] == 'char':
            return 'char'
        return ('i' if v.sg else 'u') + str(v.bits)
    if isinstance(v, Float):
        return 'f64'
    if isinstance(v, Opaque):
        return getattr(v, 'rt', v.kind)
    if isinstance(v, bool):
        return 'bool'
    return None


def pick_by_runtime(eng, cands, args):
    """several impls with the same (head, trait, method): choose by the runtime shape of the receiver"""
    v = args[0]
    while isinstance(v, Ref):
        v = v.c.v
    for f in cands:
        stext = (f.debug.get('__impl__') or (None, None, '', None))[2] or ''
        if isinstance(v, Agg) and v.ty == 'PositionalWeight':
            w = v.f[1].v
            is_vec = isinstance(w, Seq)
            if ('Vec<i32>' in stext) == is_vec:
                return f
    return cands[-1]


def field_of_opaque(eng, v, idx):
    fn = getattr(v, 'field', None)
    if fn is not None:
        return fn(idx)
    if isinstance(v, Opaque) and v.kind == 'box' and idx == 0:
        return Cell(v)      # Box.0 (Unique) .0 (NonNull): the pointer chain is the box itself
    return None


def discr_of_opaque(eng, v):
    return None


def named_const(eng, c, path):
    tail = path.split('::')[-1]
    segs = path.split('::')
    if 'SizedTypeProperties' in c and tail in ('ALIGN', 'SIZE'):
        return Int(8, 64)       # only used by the compiler-inserted misaligned/null pointer checks around Box::new_uninit
    if tail == 'MAX' or tail == 'MIN':
        from engine import int_ty
        import re as _re
        it = int_ty(segs[-2]) if len(segs) >= 2 else None
        if it is None:
            m = _re.search(r'<impl (\w+)>::(?:MAX|MIN)$', c)
            if m:
                it = int_ty(m.group(1))
        if it:
            bits, sg = it
            if tail == 'MAX':
                return Int((1 << (bits - 1)) - 1 if sg else (1 << bits) - 1, bits, sg)
            return Int(-(1 << (bits - 1)) if sg else 0, bits, sg)
    return None


from . import m_core, m_str, m_seq, m_iter, m_map, m_fmt, m_daac, m_io, m_bincode, m_liblinear, m_cli, m_csv      # noqa: E402,F401
