"""liblinear 1.0.0 (Rust wrapper) by contract — a *stub learner* (DESIGN.md appendix B).

TrainingInput::from_sparse_features(labels, features): Err when the lengths differ or there is no data; the
examples are recorded (observation point of C10).  build_model: Err or Ok (harness decides / both explored).
labels(): the distinct training labels, in first-occurrence order or any other permutation (harness decides /
all explored).  feature_coefficient / label_bias: values supplied by the harness (`e.ll['coef']`), 0 outside
the valid index range as documented.  num_features(): the largest feature index of the training input.
All eight solver types map to this one stub.
"""
import itertools
import re

from values import *
from . import model, dyn
from .m_core import deref_all
from .m_seq import seq_values


class LLProblem(Opaque):
    def __init__(self):
        Opaque.__init__(self, 'llproblem')
        self.ys = []; self.xs = []; self.rt = 'TrainingInput'


class LLBuilder(Opaque):
    def __init__(self):
        Opaque.__init__(self, 'llbuilder')
        self.problem = None; self.rt = 'Builder'


class LLModel(Opaque):
    def __init__(self, no, problem, labels, nfeat):
        Opaque.__init__(self, 'llmodel')
        self.no = no; self.problem = problem; self.labels = labels; self.nfeat = nfeat
        self.label_seq = Seq([Int(l, 32, True) for l in labels])
        self.rt = 'LLModel'


def cfg(e):
    c = getattr(e, 'll', None)
    if c is None:
        c = e.ll = {}
    c.setdefault('log', [])
    return c


def fval(x, e=None):
    x = deref_all(x)
    if isinstance(x, Float):
        if not x.is_conc():
            if x.src is not None and e is not None:
                v = e.concretize(x.src)     # a label converted from a symbolic integer: the solver enumerates its feasible values
                if x.src.sg and v >= 1 << (x.src.bits - 1):
                    v -= 1 << x.src.bits
                return float(v)
            raise Unsupported('symbolic float reaches the learner stub')
        return x.t
    raise Unsupported('float expected, got %r' % (x,))


@model(r'TrainingInput::from_sparse_features|liblinear::util::TrainingInput::from_sparse_features', 'liblinear TrainingInput::from_sparse_features (records the examples)')
def _from_sparse(e, c, a):
    ys = seq_values(a[0]); xs = seq_values(a[1])
    if len(ys) != len(xs) or not ys:
        return err(Agg([], ty='TrainingInputError'))
    p = LLProblem()
    p.ys = [fval(y, e) for y in ys]
    for x in xs:
        ex = []
        for pair in seq_values(x):
            pair = deref_all(pair)
            ex.append((pair.f[0].v.conc(), fval(pair.f[1].v)))
        p.xs.append(ex)
    return ok(p)


@model(r'liblinear::Builder::new')
def _b_new(e, c, a):
    return LLBuilder()


@model(r'liblinear::Builder::problem|liblinear::Builder::parameters|ProblemBuilder::bias|ParameterBuilder::\w+')
def _b_chain(e, c, a):
    return a[0]


@model(r'ProblemBuilder::input_data')
def _b_input(e, c, a):
    deref_all(a[0]).problem = a[1]
    return a[0]


@model(r'toggle_liblinear_stdout_output|liblinear::toggle_liblinear_stdout_output')
def _toggle(e, c, a):
    return UNIT


@model(r'liblinear::Builder::build_model', 'liblinear build_model (stub learner: Err | Ok with harness-supplied coefficients)')
def _build_model(e, c, a):
    b = deref_all(a[0])
    conf = cfg(e)
    p = b.problem
    if p is None:
        return err(Agg([], ty='failure::Error'))
    outcome = conf.get('build', 'ok')
    no = len(conf['log'])
    limit = conf.get('choose_limit')
    if outcome == 'choose':
        outcome = ('ok', 'err')[e.choose(2)] if limit is None or no < limit else 'ok'
    if outcome == 'err' or (isinstance(outcome, (set, list, tuple)) and no in outcome):
        conf['log'].append({'problem': p, 'result': 'err'})
        return err(Agg([], ty='failure::Error'))
    distinct = []
    for y in p.ys:
        if y != int(y):
            raise Unsupported('non-integral class label %r' % y)
        if int(y) not in distinct:
            distinct.append(int(y))
    order = conf.get('label_order', 'first')
    if order == 'choose' and len(distinct) > 1 and (limit is None or no < limit):
        perms = list(itertools.permutations(distinct))
        distinct = list(perms[e.choose(len(perms))])
    elif order == 'reversed':
        distinct = distinct[::-1]
    nfeat = max([fid for ex in p.xs for fid, _ in ex] + [0])
    m = LLModel(no, p, distinct, nfeat)
    conf['log'].append({'problem': p, 'result': 'ok', 'model': m})
    return ok(m)


@model(r'<liblinear::Model as LibLinearModel>::labels')
def _labels(e, c, a):
    return Ref(Cell(deref_all(a[0]).label_seq))


@model(r'<liblinear::Model as LibLinearModel>::num_features')
def _num_features(e, c, a):
    return usize(deref_all(a[0]).nfeat)


@model(r'<liblinear::Model as LibLinearModel>::num_classes')
def _num_classes(e, c, a):
    return usize(len(deref_all(a[0]).labels))


def coef_of(e, m, fid, lab):
    """fid >= 1: feature coefficient; fid == 0: label bias"""
    if lab < 0 or lab >= len(m.labels) or fid < 0 or fid > m.nfeat:
        return 0.0
    fn = cfg(e).get('coef')
    if fn is None:
        raise Unsupported('no learner coefficients configured by the harness')
    return float(fn(m.no, fid, lab, m))


@model(r'<liblinear::Model as LibLinearModel>::feature_coefficient')
def _coef(e, c, a):
    m = deref_all(a[0])
    fid = a[1].conc(); lab = a[2].conc()
    if fid is None or lab is None:
        raise Unsupported('symbolic feature / label index')
    if fid < 1:
        return Float(0.0)
    return Float(coef_of(e, m, fid, lab))


@model(r'<liblinear::Model as LibLinearModel>::label_bias')
def _label_bias(e, c, a):
    m = deref_all(a[0])
    lab = a[1].conc()
    return Float(coef_of(e, m, 0, lab))
