"""Process environment of the command-line tools by contract (C20): argument parsing returns the harness-chosen Args value,
stdin is a list of lines, stdout a byte capture, model loading reads the harness's serialised model; timing / tty / stderr are inert.
Formatting (`write!`) is rendered from the compiler's byte-coded template: literals verbatim, `{}` of integers as decimal digits,
of chars/strings as their bytes."""
import re

from values import *
from . import model, dyn
from .m_core import deref_all
from .m_io import Reader, Writer, writer_write
from .m_fmt import FmtArgs


def cli(e):
    c = getattr(e, 'cli', None)
    if c is None:
        raise Unsupported('command-line environment not configured by the harness')
    return c


@model(r'<Args as Parser>::parse|<Args as clap::Parser>::parse')
def _parse(e, c, a):
    return cli(e)['args']


def path_name(p):
    p = deref_all(p)
    if isinstance(p, Enum) and p.ty == 'Option':
        p = deref_all(p.f[0].v)
    return getattr(p, 'name', None)


@model(r'File::open::<.*>|std::fs::File::open::<.*>|File::create::<.*>|std::fs::File::create::<.*>', 'std::fs::File (in-memory file system of the harness)')
def _file_open(e, c, a):
    files = cli(e).get('files')
    if files is None:
        return ok(Opaque('file', rt='File'))
    name = path_name(a[0])
    if 'create' in c:
        files[name] = []
    elif name not in files:
        return err(Agg([], ty='io::Error::NotFound'))
    return ok(Opaque('file', rt='File', name=name, data=files[name]))


@model(r'zstd::Decoder::<.*>::new|zstd::stream::read::Decoder::<.*>::new')
def _zstd_new(e, c, a):
    f = deref_all(a[0])
    d = getattr(f, 'data', None)
    return ok(Reader(list(d if d is not None else cli(e)['model_stream'])))


class ZstdEncoder(Writer):
    pass


@model(r'zstd::Encoder::<.*>::new|zstd::stream::write::Encoder::<.*>::new', 'zstd::Encoder (identity on the typed token stream)')
def _zstd_enc_new(e, c, a):
    f = deref_all(a[0])
    w = ZstdEncoder()
    w.out = f.data          # written elements go straight into the file
    w.file = f
    return ok(w)


@model(r'zstd::Encoder::<.*>::multithread|zstd::stream::write::Encoder::<.*>::multithread')
def _zstd_mt(e, c, a):
    return ok(UNIT)


@model(r'zstd::Encoder::<.*>::finish|zstd::stream::write::Encoder::<.*>::finish')
def _zstd_finish(e, c, a):
    return ok(deref_all(a[0]).file)


@model(r'is|atty::is')
def _atty(e, c, a):
    return bool(cli(e).get('tty', False))


@model(r'stdout|std::io::stdout|std::io::Stdout::lock|Stdout::lock')
def _stdout(e, c, a):
    return cli(e)['out']


@model(r'stdin|std::io::stdin|std::io::Stdin::lock|Stdin::lock')
def _stdin(e, c, a):
    return Opaque('stdin', rt='Stdin')


@model(r'<StdinLock<.*> as BufRead>::lines|<.* as BufRead>::lines')
def _lines(e, c, a):
    ls = [ok(Str(list(s.b))) for s in cli(e)['lines']]
    return Iter('vec_into', items=ls, i=0, j=len(ls))


@model(r'Instant::now|std::time::Instant::now')
def _now(e, c, a):
    return Opaque('instant', rt='Instant')


@model(r'Instant::elapsed|std::time::Instant::elapsed')
def _elapsed(e, c, a):
    return Opaque('duration', rt='Duration')


@model(r'Duration::as_secs_f64|std::time::Duration::as_secs_f64')
def _secs(e, c, a):
    return Float(0.0)


def rust_float(x):
    """Display for f64: shortest round-trip digits, never an exponent, no trailing `.0`"""
    if x != x:
        return 'NaN'
    if x in (float('inf'), float('-inf')):
        return 'inf' if x > 0 else '-inf'
    r = repr(float(x))
    if 'e' in r or 'E' in r:
        from decimal import Decimal
        r = format(Decimal(r), 'f')
    if r.endswith('.0'):
        r = r[:-2]
    return r


def render(e, fa):
    """FmtArgs -> list of byte Ints"""
    out = []
    t = fa.tmpl
    if t is None:
        raise Unsupported('format template not captured')
    args = list(fa.args)
    i = 0
    k = 0
    while i < len(t):
        b = t[i]
        if b == 0:
            break
        if b == 0xC0:
            if k >= len(args):
                raise Unsupported('format placeholder without argument')
            out.extend(render_arg(e, args[k])); k += 1; i += 1
            continue
        if b >= 0x80:
            raise Unsupported('format template byte %#x (formatting options are not modelled)' % b)
        out.extend(Int(x, 8) for x in t[i + 1:i + 1 + b]); i += 1 + b
    return out


def render_arg(e, arg):
    from .m_str import encode_char, str_bytes
    v = deref_all(arg.val)
    if isinstance(v, Int):
        if (getattr(arg, 'ty', None) or '').lstrip('&') == 'char' or (v.bits == 32 and not v.sg and v.org is not None and v.org[0] == 'char'):
            return encode_char(e, v)
        c = e.concretize(v)
        if v.sg and c >= 1 << (v.bits - 1):
            c -= 1 << v.bits
        return [Int(x, 8) for x in str(c).encode()]
    if isinstance(v, (Str, StrRef)) or (isinstance(v, Enum) and v.ty == 'Cow'):
        return list(str_bytes(v))
    if isinstance(v, Float):
        if not v.is_conc():
            raise Unsupported('formatting a symbolic float')
        return [Int(x, 8) for x in rust_float(v.t).encode()]
    raise Unsupported('formatting %r' % (v,))


@model(r'<.* as (?:std::io::)?Write>::write_fmt', 'io::Write::write_fmt (template rendered)')
def _write_fmt(e, c, a):
    er = writer_write(e, a[0], render(e, a[1]))
    return err(er) if er is not None else ok(UNIT)
