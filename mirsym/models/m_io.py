"""std::io by contract: readers/writers over in-memory element lists with a fault schedule.

A reader/writer fails at its `fail_at`-th call (1-based; None = never): the harness makes that index
a nondeterministic choice, so every crash point of an I/O sequence is explored.
"""
import re
import z3

from values import *
from . import model, dyn
from .m_core import deref_all
from .m_seq import seq_values, seq_cells, seq_len


class Reader(Opaque):
    def __init__(self, data, fail_at=None):
        Opaque.__init__(self, 'reader')
        self.data = list(data); self.pos = 0; self.calls = 0; self.fail_at = fail_at
        self.rt = 'Reader'


class Writer(Opaque):
    def __init__(self, fail_at=None):
        Opaque.__init__(self, 'writer')
        self.out = []; self.calls = 0; self.fail_at = fail_at
        self.rt = 'Writer'


def io_error(kind):
    return Agg([], ty='io::Error::' + kind)


def the_reader(x):
    x = deref_all(x)
    if isinstance(x, Agg) and x.ty in ('BufReader', 'Take') and x.f:
        return the_reader(x.f[0].v)
    if isinstance(x, Reader):
        return x
    if isinstance(x, SliceRef):
        # &[u8] as Read: a cursor stored in the reference itself is not modelled; wrap once
        raise Unsupported('&[u8] as Read (use a Reader value in the harness)')
    raise Unsupported('reader expected, got %r' % (x,))


class BufWriterObj(Opaque):
    """std::io::BufWriter by contract: data is handed to the inner writer on flush() (errors reported) and on drop (errors IGNORED).
    Capacity-triggered flushes in between are not modelled: the buffered tail is the part whose write errors a missing flush() loses."""
    def __init__(self, inner):
        Opaque.__init__(self, 'bufwriter')
        self.rt = 'BufWriter'; self.inner = inner; self.buf = []; self.dropped = False

    def on_drop(self, e, me):
        if self.dropped:
            return
        self.dropped = True
        if self.buf:
            data, self.buf = self.buf, []
            writer_write(e, self.inner, data)       # an error here is lost: Drop cannot report it


def the_writer(x):
    x = deref_all(x)
    if isinstance(x, (Writer, BufWriterObj)):
        return x
    if isinstance(x, Seq):
        return x        # Vec<u8> as Write
    raise Unsupported('writer expected, got %r' % (x,))


def reader_fault(r):
    r.calls += 1
    return r.fail_at is not None and r.calls == r.fail_at


def reader_read_one(e, rdr):
    """one element for a token-level decoder: -> element | None (EOF) | ('ioerr', err)"""
    r = the_reader(rdr)
    if reader_fault(r):
        return ('ioerr', io_error('Other'))
    if r.pos >= len(r.data):
        return None
    r.pos += 1
    return r.data[r.pos - 1]


def writer_write(e, wtr, elems):
    """-> None | io error value"""
    w = the_writer(wtr)
    if isinstance(w, Seq):
        w.e.extend(Cell(x) for x in elems)
        return None
    if isinstance(w, BufWriterObj):
        w.buf.extend(elems)
        return None
    w.calls += 1
    if w.fail_at is not None and w.calls == w.fail_at:
        return io_error('Other')
    w.out.extend(elems)
    return None


@model(r'<.* as (?:std::io::)?Read>::read_exact|std::io::Read::read_exact', 'io::Read::read_exact (contract + fault schedule)')
def _read_exact(e, c, a):
    r = the_reader(a[0])
    cells = seq_cells(a[1])
    if reader_fault(r):
        return err(io_error('Other'))
    if len(r.data) - r.pos < len(cells):
        r.pos = len(r.data)
        return err(io_error('UnexpectedEof'))
    for cl in cells:
        cl.v = r.data[r.pos]; r.pos += 1
    return ok(UNIT)


@model(r'<.* as (?:std::io::)?Write>::write_all|std::io::Write::write_all', 'io::Write::write_all (contract + fault schedule)')
def _write_all(e, c, a):
    er = writer_write(e, a[0], seq_values(a[1]))
    return err(er) if er is not None else ok(UNIT)


@model(r'<.* as (?:std::io::)?Write>::flush|std::io::Write::flush')
def _flush(e, c, a):
    w = the_writer(a[0])
    if isinstance(w, BufWriterObj):
        if w.buf:
            data, w.buf = w.buf, []
            er = writer_write(e, w.inner, data)
            if er is not None:
                return err(er)
        return _flush(e, c, [w.inner])
    if isinstance(w, Writer):
        w.calls += 1
        if w.fail_at is not None and w.calls == w.fail_at:
            return err(io_error('Other'))
    return ok(UNIT)


@model(r'<.* as (?:std::io::)?BufRead>::read_until|std::io::BufRead::read_until', 'io::BufRead::read_until')
def _read_until(e, c, a):
    r = the_reader(a[0])
    delim = a[1]
    from .m_seq import seq_of
    k, buf = seq_of(a[2])
    if reader_fault(r):
        return err(io_error('Other'))
    n = 0
    while r.pos < len(r.data):
        b = r.data[r.pos]; r.pos += 1; n += 1
        buf.e.append(Cell(b))
        if isinstance(b, Int) and e.truth(e.binop('Eq', b, delim)):
            break
    return ok(usize(n))


@model(r'<.* as (?:std::io::)?BufRead>::read_line|std::io::BufRead::read_line', 'io::BufRead::read_line')
def _read_line(e, c, a):
    r = the_reader(a[0])
    from .m_str import string_obj, utf8_valid
    s = string_obj(a[1])
    if reader_fault(r):
        return err(io_error('Other'))
    got = []
    while r.pos < len(r.data):
        b = r.data[r.pos]; r.pos += 1
        got.append(b)
        if not isinstance(b, Int):
            return err(io_error('InvalidData'))
        if e.truth(e.binop('Eq', b, Int(10, 8))):
            break
    if not utf8_valid(e, got):
        return err(io_error('InvalidData'))
    s.b.extend(got)
    return ok(usize(len(got)))


@model(r'BufReader::<.*>::new|std::io::BufReader::<.*>::new')
def _bufreader_new(e, c, a):
    return a[0]


@model(r'BufWriter::<.*>::new|std::io::BufWriter::<.*>::new|BufWriter::<.*>::with_capacity|std::io::BufWriter::<.*>::with_capacity', 'io::BufWriter (contract: flush reports errors, drop ignores them)')
def _bufwriter_new(e, c, a):
    return BufWriterObj(a[-1])


@model(r'<.* as (?:std::io::)?Read>::read|std::io::Read::read', 'io::Read::read (contract: may return fewer bytes than requested; every count explored)')
def _read(e, c, a):
    r = the_reader(a[0])
    cells = seq_cells(a[1])
    if reader_fault(r):
        return err(io_error('Other'))
    avail = min(len(cells), len(r.data) - r.pos)
    if avail <= 0:
        return ok(usize(0))
    k = 1 + e.choose(avail)         # a reader may deliver any 1..=avail bytes per call
    for cl in cells[:k]:
        cl.v = r.data[r.pos]; r.pos += 1
    return ok(usize(k))
