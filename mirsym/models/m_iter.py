"""Iterator models: lazily evaluated python-side iterator objects + the adaptor/consumer methods."""
import re
import z3

from values import *
from . import model, dyn, rt_type
from .m_core import deref_all, values_eq, default_of
from .m_str import decode_char, encode_char, str_bytes
from .m_seq import seq_of, seq_values, as_slice
from engine import b_and, b_or, b_not, int_ty, is_bool
from mirparse import split_top


def make_iter(e, x):
    """IntoIterator::into_iter"""
    if isinstance(x, Iter):
        return x
    if isinstance(x, Seq):
        return Iter('vec_into', items=[cl.v for cl in x.e], i=0, j=len(x.e))
    if isinstance(x, SliceRef):
        return Iter('slice', s=x.s, i=x.lo, j=x.hi)
    if isinstance(x, Ref):
        v = x.c.v
        if isinstance(v, Seq):
            return Iter('slice', s=v, i=0, j=len(v.e))
        if isinstance(v, (SliceRef, Iter)):
            return make_iter(e, v)
        if isinstance(v, Opaque) and hasattr(v, 'ref_iter'):
            return v.ref_iter(e, x)
        if isinstance(v, Enum) and v.ty == 'Option':
            return Iter('vec_into', items=[Ref(v.f[0])] if v.var == 'Some' else [], i=0, j=1 if v.var == 'Some' else 0)
        if isinstance(v, Agg):
            return x        # &mut I where I: Iterator
    if isinstance(x, Agg):
        if x.ty in ('Range', 'RangeInclusive'):
            return Iter('range', cur=x.f[0].v, end=x.f[1].v, incl=x.ty == 'RangeInclusive', done=False)
        if x.ty == 'RangeFrom':
            return Iter('range', cur=x.f[0].v, end=None, incl=False, done=False)
        return x            # crate iterator type (e.g. TokenIterator)
    if isinstance(x, Enum) and x.ty == 'Option':
        return Iter('vec_into', items=[x.f[0].v] if x.var == 'Some' else [], i=0, j=1 if x.var == 'Some' else 0)
    if isinstance(x, Opaque):
        if hasattr(x, 'into_iter'):
            return x.into_iter(e)
        if x.kind in ('strbytes', 'bytevec'):
            vals = seq_values(x)
            return Iter('vec_into', items=[Ref(Cell(v)) for v in vals], i=0, j=len(vals))
    raise Unsupported('into_iter of %r' % (x,))


def iter_next(e, it):
    """-> Option enum"""
    if isinstance(it, Ref):
        it = it.c.v
    if not isinstance(it, Iter):
        if isinstance(it, Opaque) and getattr(it, 'next_fn', None) is not None:
            return it.next_fn(e, it)
        if isinstance(it, Agg):
            if it.ty in ('Range', 'RangeInclusive', 'RangeFrom'):
                raise Unsupported('next on raw range aggregate')
            return e.call('<%s as Iterator>::next' % it.ty, [Ref(Cell(it))])
        raise Unsupported('next of %r' % (it,))
    k = it.kind
    if k == 'slice':
        if it.i >= it.j:
            return none()
        it.i += 1
        return some(Ref(it.s.e[it.i - 1]))
    if k == 'vec_into':
        if it.i >= it.j:
            return none()
        it.i += 1
        return some(it.items[it.i - 1])
    if k == 'chars':
        if it.i >= it.j:
            return none()
        ch, w = decode_char(e, it.bs, it.i); it.i += w
        return some(ch)
    if k == 'char_indices':
        if it.i >= it.j:
            return none()
        pos = it.i
        ch, w = decode_char(e, it.bs, it.i); it.i += w
        return some(Agg([usize(pos), ch]))
    if k == 'range':
        if it.done:
            return none()
        cur = it.cur
        if it.end is None:
            it.cur = e.binop('Add', cur, Int(1, cur.bits, cur.sg)); return some(cur)
        if it.incl:
            if not e.truth(e.binop('Le', cur, it.end)):
                it.done = True; return none()
            if e.truth(e.binop('Eq', cur, it.end)):
                it.done = True
            else:
                it.cur = e.binop('Add', cur, Int(1, cur.bits, cur.sg))
            return some(cur)
        if not e.truth(e.binop('Lt', cur, it.end)):
            return none()
        it.cur = e.binop('Add', cur, Int(1, cur.bits, cur.sg))
        return some(cur)
    if k == 'enumerate':
        r = iter_next(e, it.inner)
        if r.var == 'None':
            return r
        it.n += 1
        return some(Agg([usize(it.n - 1), r.f[0].v]))
    if k == 'zip':
        ra = iter_next(e, it.a)
        if ra.var == 'None':
            return ra
        rb = iter_next(e, it.b)
        if rb.var == 'None':
            return rb
        return some(Agg([ra.f[0].v, rb.f[0].v]))
    if k == 'map':
        r = iter_next(e, it.inner)
        if r.var == 'None':
            return r
        return some(e.call_closure(it.f, [r.f[0].v]))
    if k == 'filter':
        while True:
            r = iter_next(e, it.inner)
            if r.var == 'None':
                return r
            if e.truth(e.call_closure(it.f, [Ref(Cell(r.f[0].v))])):
                return r
    if k == 'filter_map':
        while True:
            r = iter_next(e, it.inner)
            if r.var == 'None':
                return r
            o = e.call_closure(it.f, [r.f[0].v])
            if o.var == 'Some':
                return o
    if k == 'skip':
        while it.n > 0:
            it.n -= 1
            r = iter_next(e, it.inner)
            if r.var == 'None':
                return r
        return iter_next(e, it.inner)
    if k == 'take':
        if it.n == 0:
            return none()
        it.n -= 1
        return iter_next(e, it.inner)
    if k == 'take_while':
        if it.done:
            return none()
        r = iter_next(e, it.inner)
        if r.var == 'None':
            return r
        if e.truth(e.call_closure(it.f, [Ref(Cell(r.f[0].v))])):
            return r
        it.done = True
        return none()
    if k == 'map_while':
        if it.done:
            return none()
        r = iter_next(e, it.inner)
        if r.var == 'None':
            return r
        m = e.call_closure(it.f, [r.f[0].v])
        if m.var == 'None':
            it.done = True
            return none()
        return m
    if k == 'rev':
        return iter_next_back(e, it.inner)
    if k == 'cloned':
        r = iter_next(e, it.inner)
        if r.var == 'None':
            return r
        return some(deep_clone(deref_all(r.f[0].v)))
    if k == 'chain':
        if not it.first_done:
            r = iter_next(e, it.a)
            if r.var == 'Some':
                return r
            it.first_done = True
        return iter_next(e, it.b)
    if k == 'chunks':
        if it.i >= it.j:
            return none()
        hi = it.i + it.n
        if hi > it.j:
            if it.exact:
                return none()
            hi = it.j
        r = SliceRef(it.s, it.i, hi); it.i = hi
        return some(r)
    if k == 'windows':
        if it.i + it.n > it.j:
            return none()
        r = SliceRef(it.s, it.i, it.i + it.n); it.i += 1
        return some(r)
    if k == 'peekable':
        if it.peeked is not None:
            r = it.peeked; it.peeked = None
            return r
        return iter_next(e, it.inner)
    if k == 'flat_map':
        while True:
            if it.cur is not None:
                r = iter_next(e, it.cur)
                if r.var == 'Some':
                    return r
                it.cur = None
            r = iter_next(e, it.inner)
            if r.var == 'None':
                return r
            it.cur = make_iter(e, e.call_closure(it.f, [r.f[0].v]) if it.f is not None else r.f[0].v)
    if k == 'step_by':
        r = iter_next(e, it.inner)
        for _ in range(it.n - 1):
            if iter_next(e, it.inner).var == 'None':
                break
        return r
    if k == 'custom':
        return it.nextfn(e, it)
    raise Unsupported('iter_next ' + k)


def iter_next_back(e, it):
    if isinstance(it, Ref):
        it = it.c.v
    k = it.kind
    if k == 'slice':
        if it.i >= it.j:
            return none()
        it.j -= 1
        return some(Ref(it.s.e[it.j]))
    if k == 'vec_into':
        if it.i >= it.j:
            return none()
        it.j -= 1
        return some(it.items[it.j])
    if k == 'chars':
        if it.i >= it.j:
            return none()
        p = it.j - 1
        from .m_str import is_char_boundary
        while p > it.i and not is_char_boundary(e, it.bs, p):
            p -= 1
        ch, w = decode_char(e, it.bs, p); it.j = p
        return some(ch)
    if k == 'range':
        if it.done or it.end is None:
            return none()
        if it.incl:
            raise Unsupported('rev of inclusive range')
        if not e.truth(e.binop('Lt', it.cur, it.end)):
            return none()
        it.end = e.binop('Sub', it.end, Int(1, it.end.bits, it.end.sg))
        return some(it.end)
    if k == 'enumerate':
        n = iter_len(e, it.inner)
        r = iter_next_back(e, it.inner)
        if r.var == 'None':
            return r
        return some(Agg([usize(it.n + n - 1), r.f[0].v]))
    if k == 'map':
        r = iter_next_back(e, it.inner)
        if r.var == 'None':
            return r
        return some(e.call_closure(it.f, [r.f[0].v]))
    if k == 'rev':
        return iter_next(e, it.inner)
    if k == 'zip':
        la, lb = iter_len(e, it.a), iter_len(e, it.b)
        while la > lb:
            iter_next_back(e, it.a); la -= 1
        while lb > la:
            iter_next_back(e, it.b); lb -= 1
        ra = iter_next_back(e, it.a)
        if ra.var == 'None':
            return ra
        rb = iter_next_back(e, it.b)
        return some(Agg([ra.f[0].v, rb.f[0].v]))
    if k == 'cloned':
        r = iter_next_back(e, it.inner)
        if r.var == 'None':
            return r
        return some(deep_clone(deref_all(r.f[0].v)))
    raise Unsupported('iter_next_back ' + k)


def iter_len(e, it):
    if isinstance(it, Ref):
        it = it.c.v
    k = it.kind
    if k in ('slice', 'vec_into'):
        return it.j - it.i
    if k in ('enumerate', 'map', 'cloned', 'rev'):
        return iter_len(e, it.inner)
    if k == 'zip':
        return min(iter_len(e, it.a), iter_len(e, it.b))
    if k == 'range':
        lo = e.concretize(it.cur, 1 << 20); hi = e.concretize(it.end, 1 << 20)
        return max(0, hi - lo + (1 if it.incl else 0))
    if k == 'chunks':
        n = it.j - it.i
        return n // it.n if it.exact else (n + it.n - 1) // it.n
    raise Unsupported('iter_len ' + k)


def drain(e, it):
    out = []
    while True:
        r = iter_next(e, it)
        if r.var == 'None':
            return out
        out.append(r.f[0].v)


# ---------------------------------------------------------------- IntoIterator / next
@model(r'<.* as IntoIterator>::into_iter', 'IntoIterator::into_iter')
def _into_iter(e, c, a):
    return make_iter(e, a[0])


@model(r'<.* as Iterator>::next', 'Iterator::next (std iterators)')
def _next(e, c, a):
    it = a[0].c.v
    if isinstance(it, Agg) and it.ty in ('Range', 'RangeInclusive', 'RangeFrom'):
        it = a[0].c.v = make_iter(e, it)
    return iter_next(e, it)


@dyn('Iterator', 'next')
def _dyn_next(e, c, a):
    it = a[0].c.v
    if isinstance(it, Agg) and it.ty in ('Range', 'RangeInclusive', 'RangeFrom'):
        it = a[0].c.v = make_iter(e, it)
    return iter_next(e, it)


@model(r'<.* as DoubleEndedIterator>::next_back')
def _next_back(e, c, a):
    return iter_next_back(e, a[0].c.v)


@model(r'<.* as ExactSizeIterator>::len')
def _exact_len(e, c, a):
    return usize(iter_len(e, a[0]))


@model(r'<.* as Iterator>::size_hint')
def _size_hint(e, c, a):
    n = iter_len(e, a[0])
    return Agg([usize(n), some(usize(n))])


# ---------------------------------------------------------------- adaptors
def _self_iter(e, x):
    return make_iter(e, x)


@model(r'<.* as Iterator>::enumerate')
def _enumerate(e, c, a):
    return Iter('enumerate', inner=_self_iter(e, a[0]), n=0)


@model(r'<.* as Iterator>::zip::<.*>')
def _zip(e, c, a):
    return Iter('zip', a=_self_iter(e, a[0]), b=make_iter(e, a[1]))


@model(r'<.* as Iterator>::map::<.*>')
def _map(e, c, a):
    return Iter('map', inner=_self_iter(e, a[0]), f=a[1])


@model(r'<.* as Iterator>::filter::<.*>')
def _filter(e, c, a):
    return Iter('filter', inner=_self_iter(e, a[0]), f=a[1])


@model(r'<.* as Iterator>::filter_map::<.*>')
def _filter_map(e, c, a):
    return Iter('filter_map', inner=_self_iter(e, a[0]), f=a[1])


@model(r'<.* as Iterator>::flat_map::<.*>')
def _flat_map(e, c, a):
    return Iter('flat_map', inner=_self_iter(e, a[0]), f=a[1], cur=None)


@model(r'<.* as Iterator>::flatten')
def _flatten(e, c, a):
    return Iter('flat_map', inner=_self_iter(e, a[0]), f=None, cur=None)


@model(r'<.* as Iterator>::skip')
def _skip(e, c, a):
    return Iter('skip', inner=_self_iter(e, a[0]), n=e.concretize(a[1], 1 << 16))


@model(r'<.* as Iterator>::take')
def _take(e, c, a):
    return Iter('take', inner=_self_iter(e, a[0]), n=e.concretize(a[1], 1 << 16))


@model(r'<.* as Iterator>::map_while::<.*>')
def _map_while(e, c, a):
    return Iter('map_while', inner=_self_iter(e, a[0]), f=a[1], done=False)


@model(r'<.* as Iterator>::take_while::<.*>')
def _take_while(e, c, a):
    return Iter('take_while', inner=_self_iter(e, a[0]), f=a[1], done=False)


@model(r'<.* as Iterator>::step_by')
def _step_by(e, c, a):
    n = e.concretize(a[1], 1 << 16)
    if n == 0:
        raise Panic('step_by(0)')
    return Iter('step_by', inner=_self_iter(e, a[0]), n=n)


@model(r'<.* as Iterator>::rev')
def _rev(e, c, a):
    return Iter('rev', inner=_self_iter(e, a[0]))


@model(r'<.* as Iterator>::cloned::<.*>|<.* as Iterator>::copied::<.*>')
def _cloned(e, c, a):
    return Iter('cloned', inner=_self_iter(e, a[0]))


@model(r'<.* as Iterator>::chain::<.*>')
def _chain(e, c, a):
    return Iter('chain', a=_self_iter(e, a[0]), b=make_iter(e, a[1]), first_done=False)


@model(r'<.* as Iterator>::peekable')
def _peekable(e, c, a):
    return Iter('peekable', inner=_self_iter(e, a[0]), peeked=None)


@model(r'Peekable::<.*>::peek')
def _peek(e, c, a):
    it = a[0].c.v
    if it.peeked is None:
        it.peeked = iter_next(e, it.inner)
    if it.peeked.var == 'None':
        return none()
    return some(Ref(it.peeked.f[0]))


@model(r'<.* as Iterator>::by_ref')
def _by_ref(e, c, a):
    return a[0]


# ---------------------------------------------------------------- consumers
@model(r'<.* as Iterator>::fold::<.*>')
def _fold(e, c, a):
    it = _self_iter(e, a[0]); acc = a[1]
    while True:
        r = iter_next(e, it)
        if r.var == 'None':
            return acc
        acc = e.call_closure(a[2], [acc, r.f[0].v])


@model(r'<.* as Iterator>::for_each::<.*>')
def _for_each(e, c, a):
    it = _self_iter(e, a[0])
    while True:
        r = iter_next(e, it)
        if r.var == 'None':
            return UNIT
        e.call_closure(a[1], [r.f[0].v])


@model(r'<.* as Iterator>::count')
def _count(e, c, a):
    return usize(len(drain(e, _self_iter(e, a[0]))))


@model(r'<.* as Iterator>::last')
def _last(e, c, a):
    xs = drain(e, _self_iter(e, a[0]))
    return some(xs[-1]) if xs else none()


@model(r'<.* as Iterator>::nth')
def _nth(e, c, a):
    it = a[0].c.v if isinstance(a[0], Ref) else a[0]
    n = e.concretize(a[1], 1 << 16)
    for _ in range(n):
        if iter_next(e, it).var == 'None':
            return none()
    return iter_next(e, it)


@model(r'<.* as Iterator>::rposition::<.*>')
def _rposition(e, c, a):
    it = a[0].c.v if isinstance(a[0], Ref) else a[0]
    n = iter_len(e, it)
    k = n
    while True:
        r = iter_next_back(e, it)
        if r.var == 'None':
            return none()
        k -= 1
        if e.truth(e.call_closure(a[1], [r.f[0].v])):
            return some(usize(k))


@model(r'<.* as Iterator>::position::<.*>')
def _position(e, c, a):
    it = a[0].c.v if isinstance(a[0], Ref) else a[0]
    k = 0
    while True:
        r = iter_next(e, it)
        if r.var == 'None':
            return none()
        if e.truth(e.call_closure(a[1], [r.f[0].v])):
            return some(usize(k))
        k += 1


@model(r'<.* as Iterator>::any::<.*>')
def _any(e, c, a):
    it = a[0].c.v if isinstance(a[0], Ref) else _self_iter(e, a[0])
    while True:
        r = iter_next(e, it)
        if r.var == 'None':
            return False
        if e.truth(e.call_closure(a[1], [r.f[0].v])):
            return True


@model(r'<.* as Iterator>::all::<.*>')
def _all(e, c, a):
    it = a[0].c.v if isinstance(a[0], Ref) else _self_iter(e, a[0])
    while True:
        r = iter_next(e, it)
        if r.var == 'None':
            return True
        if not e.truth(e.call_closure(a[1], [r.f[0].v])):
            return False


@model(r'<.* as Iterator>::find::<.*>')
def _find(e, c, a):
    it = a[0].c.v if isinstance(a[0], Ref) else _self_iter(e, a[0])
    while True:
        r = iter_next(e, it)
        if r.var == 'None':
            return r
        if e.truth(e.call_closure(a[1], [Ref(Cell(r.f[0].v))])):
            return r


@model(r'<.* as Iterator>::find_map::<.*>')
def _find_map(e, c, a):
    it = a[0].c.v if isinstance(a[0], Ref) else _self_iter(e, a[0])
    while True:
        r = iter_next(e, it)
        if r.var == 'None':
            return r
        o = e.call_closure(a[1], [r.f[0].v])
        if o.var == 'Some':
            return o


@model(r'<.* as Iterator>::sum::<.*>')
def _sum(e, c, a):
    m = re.search(r'sum::<(.*)>$', c)
    it_ty = int_ty(m.group(1))
    xs = drain(e, _self_iter(e, a[0]))
    if it_ty is None:
        acc = Float(0.0)
        for x in xs:
            acc = e.binop('Add', acc, deref_all(x))
        return acc
    acc = Int(0, it_ty[0], it_ty[1])
    for x in xs:
        r = e.binop('AddWithOverflow', acc, deref_all(x))
        if e.truth(r.f[1].v):
            raise Panic('attempt to add with overflow (Iterator::sum)')
        acc = r.f[0].v
    return acc


@model(r'<.* as Iterator>::max|<.* as Iterator>::min')
def _max(e, c, a):
    xs = drain(e, _self_iter(e, a[0]))
    if not xs:
        return none()
    best = xs[0]
    for x in xs[1:]:
        le = e.binop('Le', deref_all(best), deref_all(x))
        if c.endswith('max'):
            if e.truth(le):
                best = x
        else:
            if not e.truth(le):
                best = x
    return some(best)


@model(r'<.* as Iterator>::max_by_key::<.*>|<.* as Iterator>::min_by_key::<.*>')
def _max_by_key(e, c, a):
    xs = drain(e, _self_iter(e, a[0]))
    if not xs:
        return none()
    keys = [e.call_closure(a[1], [Ref(Cell(x))]) for x in xs]
    bi = 0
    for i in range(1, len(xs)):
        le = e.binop('Le', keys[bi], keys[i])
        if 'max_by_key' in c:
            if e.truth(le):
                bi = i
        else:
            if not e.truth(le):
                bi = i
    return some(xs[bi])


def _collect_into(e, target, xs, c):
    t = target.strip()
    from mirparse import strip_generics
    h = strip_generics(t).split('::')[-1]
    if h == 'Vec':
        return Seq(xs)
    if h == 'String':
        s = Str()
        for v in xs:
            v = deref_all(v)
            if isinstance(v, Int):
                s.b.extend(encode_char(e, v))
            else:
                s.b.extend(str_bytes(v))
        return s
    if h in ('HashMap', 'BTreeMap', 'HashSet', 'BTreeSet'):
        from .m_map import new_map, map_insert
        m = new_map(h)
        for v in xs:
            if h.endswith('Set'):
                map_insert(e, m, v, UNIT)
            else:
                map_insert(e, m, v.f[0].v, v.f[1].v)
        return m
    if h == 'Result':
        inner = split_top(t[t.index('<') + 1:-1])[0]
        out = []
        for v in xs:
            if v.var == 'Err':
                return v
            out.append(v.f[0].v)
        return ok(_collect_into(e, inner, out, c))
    if h == 'Option':
        inner = t[t.index('<') + 1:-1]
        out = []
        for v in xs:
            if v.var == 'None':
                return v
            out.append(v.f[0].v)
        return some(_collect_into(e, inner, out, c))
    if h == 'Box':
        return Opaque('box', cell=Cell(Seq(xs)), rt='Box')
    raise Unsupported('collect into ' + target)


@model(r'<.* as Iterator>::collect::<.*>')
def _collect(e, c, a):
    m = re.search(r'::collect::<(.*)>$', c)
    xs = drain(e, _self_iter(e, a[0]))
    return _collect_into(e, m.group(1), xs, c)


@model(r'<Vec<.*> as FromIterator<.*>>::from_iter::<.*>')
def _vec_from_iter(e, c, a):
    return Seq(drain(e, make_iter(e, a[0])))


@model(r'<.* as Iterator>::unzip::<.*>')
def _unzip(e, c, a):
    xs = drain(e, _self_iter(e, a[0]))
    return Agg([Seq([x.f[0].v for x in xs]), Seq([x.f[1].v for x in xs])])


@model(r'std::iter::zip::<.*>|core::iter::zip::<.*>')
def _zip_fn(e, c, a):
    return Iter('zip', a=make_iter(e, a[0]), b=make_iter(e, a[1]))


@model(r'std::iter::repeat::<.*>|core::iter::repeat::<.*>')
def _repeat(e, c, a):
    v = a[0]
    return Iter('custom', nextfn=lambda e_, it: some(deep_clone(v)))


@model(r'std::iter::once::<.*>|core::iter::once::<.*>')
def _once(e, c, a):
    return Iter('vec_into', items=[a[0]], i=0, j=1)


@model(r'std::iter::empty::<.*>|core::iter::empty::<.*>')
def _empty(e, c, a):
    return Iter('vec_into', items=[], i=0, j=0)


# RangeInclusive helpers used by `(a..=b).contains(&x)`
@model(r'std::ops::RangeInclusive::<.*>::new|core::ops::RangeInclusive::<.*>::new')
def _ri_new(e, c, a):
    return Agg([a[0], a[1], False], ty='RangeInclusive', names=['start', 'end', 'exhausted'])


@model(r'std::ops::RangeInclusive::<.*>::contains::<.*>|<std::ops::RangeInclusive<.*> as RangeBounds<.*>>::contains::<.*>|std::ops::Range::<.*>::contains::<.*>|core::ops::RangeInclusive::<.*>::contains::<.*>')
def _ri_contains(e, c, a):
    r = deref_all(a[0]); x = deref_all(a[1])
    lo, hi = deref_all(r.f[0].v), deref_all(r.f[1].v)
    ge = e.binop('Ge', x, lo)
    le = e.binop('Le' if r.ty == 'RangeInclusive' else 'Lt', x, hi)
    return b_and(ge, le)


@model(r'std::ops::Range::<.*>::is_empty|<std::ops::Range<.*> as ExactSizeIterator>::len|std::ops::Range::<.*>::len')
def _range_misc(e, c, a):
    r = deref_all(a[0])
    if isinstance(r, Iter):
        lo, hi = r.cur, r.end
    else:
        lo, hi = r.f[0].v, r.f[1].v
    if c.endswith('is_empty'):
        return b_not(e.binop('Lt', lo, hi))
    if e.truth(e.binop('Lt', lo, hi)):
        return e.binop('Sub', hi, lo)
    return Int(0, lo.bits, lo.sg)
