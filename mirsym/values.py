"""Value model of the MIR symbolic executor ("shape-concrete, data-symbolic").

Scalars are either Python ints/bools (concrete fast path) or z3 terms.  Containers have concrete
shapes (Python lists) with symbolic contents.
"""
import z3


class Panic(Exception):
    """A panic (or detected UB) in the executed code; ends the path and is a verdict."""
    def __init__(self, msg, kind='panic'):
        Exception.__init__(self, msg)
        self.kind = kind


class PathEnd(Exception):
    """infeasible path / assume(false)"""


class Unsupported(Exception):
    """the engine cannot execute this construct: the check is inconclusive, never a pass"""


class Cell:
    __slots__ = ('v',)

    def __init__(self, v=None):
        self.v = v

    def __repr__(self):
        return 'Cell(%r)' % (self.v,)


def mask(bits):
    return (1 << bits) - 1


class Int:
    """integer / char / C-like enum value. t: python int in [0, 2^bits) or z3 BitVecRef."""
    __slots__ = ('t', 'bits', 'sg', 'org', 'rng')

    def __init__(self, t, bits, sg=False, org=None, rng=None):
        if type(t) is int:
            t &= (1 << bits) - 1
        self.t = t; self.bits = bits; self.sg = sg; self.org = org
        self.rng = rng      # optional conservative interval (lo, hi) of the value (signed view if sg)

    def interval(self):
        t = self.t
        if type(t) is int:
            if self.sg and t >= 1 << (self.bits - 1):
                t -= 1 << self.bits
            return (t, t)
        return self.rng

    def is_conc(self):
        return type(self.t) is int

    def conc(self):
        """python value (signed interpretation if signed) or None"""
        t = self.t
        if type(t) is not int:
            t2 = z3.simplify(t)
            if z3.is_bv_value(t2):
                t = t2.as_long(); self.t = t
            else:
                return None
        if self.sg and t >= 1 << (self.bits - 1):
            return t - (1 << self.bits)
        return t

    def z(self):
        t = self.t
        return z3.BitVecVal(t, self.bits) if type(t) is int else t

    def __repr__(self):
        c = self.t if type(self.t) is int else None
        if c is not None:
            if self.sg and c >= 1 << (self.bits - 1):
                c -= 1 << self.bits
            return '%d_%s%d' % (c, 'i' if self.sg else 'u', self.bits)
        return 'Int(%s)' % self.t


class Float:
    """f64: python float or z3 FP term"""
    __slots__ = ('t', 'src')

    def __init__(self, t, src=None):
        self.t = t
        self.src = src      # the integer value this float was converted from (symbolic int -> float casts)

    def is_conc(self):
        return isinstance(self.t, float)

    def z(self):
        return z3.FPVal(self.t, z3.Float64()) if isinstance(self.t, float) else self.t

    def __repr__(self):
        return 'Float(%s)' % (self.t,)


class Agg:
    """struct / tuple / closure value: ty = head name (or None for tuples)"""
    __slots__ = ('f', 'ty', 'names')

    def __init__(self, fields, ty=None, names=None):
        self.f = [Cell(x) for x in fields]; self.ty = ty; self.names = names

    def __repr__(self):
        return '%s%r' % (self.ty or '', tuple(c.v for c in self.f))


class Enum:
    """data-carrying enum (or std enum) with a concrete variant"""
    __slots__ = ('var', 'f', 'ty')

    def __init__(self, var, fields=(), ty=None):
        self.var = var; self.f = [Cell(x) for x in fields]; self.ty = ty

    def __repr__(self):
        return '%s::%s%r' % (self.ty or '', self.var, tuple(c.v for c in self.f))


class Seq:
    """Vec<T> (heap, arr=False) or [T; N] (value, arr=True); e: list of Cells"""
    __slots__ = ('e', 'arr', 'elt')

    def __init__(self, elems=(), arr=False, elt=None):
        self.e = [Cell(x) for x in elems]; self.arr = arr; self.elt = elt

    def __repr__(self):
        return ('Arr' if self.arr else 'Vec') + repr([c.v for c in self.e])


class Str:
    """String buffer: list of byte Ints (org = (char Int, idx, width) when known)"""
    __slots__ = ('b',)

    def __init__(self, b=()):
        self.b = list(b)

    def __repr__(self):
        return 'Str(%s)' % show_bytes(self.b)


class Ref:
    __slots__ = ('c',)

    def __init__(self, c):
        self.c = c

    def __repr__(self):
        return '&%r' % (self.c.v,)


class SliceRef:
    """&[T] / &mut [T]: view [lo, hi) on a Seq"""
    __slots__ = ('s', 'lo', 'hi')

    def __init__(self, s, lo, hi):
        self.s = s; self.lo = lo; self.hi = hi

    def cells(self):
        return self.s.e[self.lo:self.hi]

    def __len__(self):
        return self.hi - self.lo

    def __repr__(self):
        return '&%r[%d..%d]' % (self.s, self.lo, self.hi)


class StrRef:
    """&str: view [lo, hi) (byte offsets) on a Str"""
    __slots__ = ('s', 'lo', 'hi')

    def __init__(self, s, lo, hi):
        self.s = s; self.lo = lo; self.hi = hi

    def bytes(self):
        return self.s.b[self.lo:self.hi]

    def __len__(self):
        return self.hi - self.lo

    def __repr__(self):
        return '&str(%s)' % show_bytes(self.bytes())


class FnItem:
    __slots__ = ('path',)

    def __init__(self, path):
        self.path = path

    def __repr__(self):
        return 'fn{%s}' % self.path


class Opaque:
    """a value of a stubbed third-party type, implemented natively (kind + python payload)"""
    def __init__(self, kind, **kw):
        self.kind = kind
        self.__dict__.update(kw)

    def __repr__(self):
        return 'Opaque(%s)' % self.kind


class Iter(Opaque):
    pass


UNIT = Agg([])


def show_bytes(bs):
    out = bytearray()
    for b in bs:
        if isinstance(b, Int) and type(b.t) is int:
            out.append(b.t)
        else:
            out += b'?'
    try:
        return repr(out.decode('utf-8'))
    except Exception:
        return repr(bytes(out))


# ---- construction helpers -------------------------------------------------------------------
def usize(n):
    return Int(n, 64)


def u8(n):
    return Int(n, 8)


def mk_char(n):
    return Int(n, 32)


def some(v):
    return Enum('Some', [v], 'Option')


def none():
    return Enum('None', [], 'Option')


def ok(v):
    return Enum('Ok', [v], 'Result')


def err(v):
    return Enum('Err', [v], 'Result')


def mk_str(py):
    bs = []
    for ch in py:
        enc = ch.encode('utf-8')
        c = Int(ord(ch), 32)
        for i, b in enumerate(enc):
            bs.append(Int(b, 8, False, (c, i, len(enc))))
    return Str(bs)


def mk_strref(py):
    s = mk_str(py)
    return StrRef(s, 0, len(s.b))


def mk_bytes_seq(bs, arr=False):
    return Seq([Int(b, 8) for b in bs], arr=arr, elt='u8')


def copy_val(v):
    """value copy for Copy types / Clone of plain data (refs are copied as refs)"""
    if isinstance(v, Agg):
        a = Agg.__new__(Agg); a.f = [Cell(copy_val(c.v)) for c in v.f]; a.ty = v.ty; a.names = v.names
        return a
    if isinstance(v, Enum):
        e = Enum.__new__(Enum); e.var = v.var; e.f = [Cell(copy_val(c.v)) for c in v.f]; e.ty = v.ty
        return e
    if isinstance(v, Seq) and v.arr:
        s = Seq.__new__(Seq); s.e = [Cell(copy_val(c.v)) for c in v.e]; s.arr = True; s.elt = v.elt
        return s
    return v


def deep_clone(v):
    """Clone::clone for owned data (Vec, String, aggregates); refs stay refs"""
    if isinstance(v, (Int, Float, bool, z3.ExprRef, Ref, SliceRef, StrRef, FnItem)) or v is None:
        return v
    if isinstance(v, Agg):
        a = Agg.__new__(Agg); a.f = [Cell(deep_clone(c.v)) for c in v.f]; a.ty = v.ty; a.names = v.names
        return a
    if isinstance(v, Enum):
        e = Enum.__new__(Enum); e.var = v.var; e.f = [Cell(deep_clone(c.v)) for c in v.f]; e.ty = v.ty
        return e
    if isinstance(v, Seq):
        s = Seq.__new__(Seq); s.e = [Cell(deep_clone(c.v)) for c in v.e]; s.arr = v.arr; s.elt = v.elt
        return s
    if isinstance(v, Str):
        return Str(list(v.b))
    if isinstance(v, Opaque) and hasattr(v, 'clone'):
        return v.clone()
    raise Unsupported('clone of %r' % (v,))
