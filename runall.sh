#!/bin/bash
# development aid: run every quick check sequentially, one line per check
cd /verif
for c in ${@:-C01 C02 C03 C04 C05 C06 C07 C08 C09 C10 C11 C12 C13 C14 C15 C16 C17 C18 C19 C20}; do
  s=$(date +%s)
  ./check $c > /tmp/runall_$c.log 2>&1
  rc=$?
  echo "$c exit=$rc wall=$(( $(date +%s) - s ))s $(grep -c '^VIOLATION' /tmp/runall_$c.log) violations $(grep -c '^INCONCLUSIVE' /tmp/runall_$c.log) inconclusive"
done
