//! Native confirmation driver for the Tantivy token stream (C16): JSON {"model":[u8..],"wsconst":"..","text":".."} on stdin,
//! optional "prior": a text streamed to its end through the same tokenizer first.
//! JSON {"tokens":[{"from":..,"to":..,"position":..,"text":..}]} | {"panic":..} | {"err":..} on stdout.
use std::io::Read;
use std::panic::{catch_unwind, AssertUnwindSafe};

use serde_json::{json, Value};
use tantivy::tokenizer::{TokenStream, Tokenizer};
use vaporetto::Model;
use vaporetto_tantivy::VaporettoTokenizer;

fn main() {
    let mut inp = String::new();
    std::io::stdin().read_to_string(&mut inp).unwrap();
    let v: Value = serde_json::from_str(&inp).unwrap();
    let bytes: Vec<u8> = v["model"].as_array().unwrap().iter().map(|x| x.as_u64().unwrap() as u8).collect();
    let wsconst = v["wsconst"].as_str().unwrap_or("").to_string();
    let text = v["text"].as_str().unwrap_or("").to_string();
    std::panic::set_hook(Box::new(|_| {}));
    let r = catch_unwind(AssertUnwindSafe(|| {
        let model = match Model::read(&mut bytes.as_slice()) {
            Ok(m) => m,
            Err(e) => return json!({"err": format!("read: {e}")}),
        };
        let mut tok = match VaporettoTokenizer::new(model, &wsconst) {
            Ok(t) => t,
            Err(e) => return json!({"err": format!("new: {e}")}),
        };
        if let Some(prior) = v["prior"].as_str() {
            // the same tokenizer object first streams another document to its end
            let mut ps = tok.token_stream(prior);
            let mut n = 0;
            while ps.advance() {
                n += 1;
                if n > 100000 {
                    break;
                }
            }
        }
        let mut stream = tok.token_stream(&text);
        let mut out = vec![];
        while stream.advance() {
            let t = stream.token();
            out.push(json!({"from": t.offset_from, "to": t.offset_to, "position": t.position, "text": t.text}));
            if out.len() > 100000 {
                break;
            }
        }
        json!({"tokens": out})
    }));
    let res = match r {
        Ok(v) => v,
        Err(p) => {
            let msg = p.downcast_ref::<String>().cloned().or_else(|| p.downcast_ref::<&str>().map(|s| s.to_string())).unwrap_or_default();
            json!({"panic": msg})
        }
    };
    println!("@@RESULT@@{}", res);
}
