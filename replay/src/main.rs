//! Native replay driver: executes a JSON scenario through vaporetto's *public* API and prints one
//! JSON observation per operation.  Never the deciding step of a check: it confirms solver
//! counterexamples against the natively compiled library and validates the symbolic engine.
use std::collections::HashMap as StdHashMap;
use std::io::Read;
use std::panic::{catch_unwind, AssertUnwindSafe};

use serde_json::{json, Value};
use vaporetto::{CharacterBoundary, CharacterType, KyteaModel, Model, Predictor, Sentence, SolverType, Trainer, WordWeightRecord};
use vaporetto_rules::{
    sentence_filters::{
        ConcatGraphemeClustersFilter, KyteaWsConstFilter, PatternMatchTagger, SplitLinebreaksFilter,
    },
    string_filters::KyteaFullwidthFilter,
    SentenceFilter, StringFilter,
};

include!(concat!(env!("OUT_DIR"), "/magic.rs"));

mod mirror {
    use bincode::{Decode, Encode};
    #[derive(Encode, Decode, Clone)]
    pub struct NgramData<T> {
        pub ngram: T,
        pub weights: Vec<i32>,
    }
    #[derive(Encode, Decode, Clone)]
    pub struct TagWeight {
        pub rel_position: u8,
        pub weights: Vec<i32>,
    }
    #[derive(Encode, Decode, Clone)]
    pub struct TagNgramData<T> {
        pub ngram: T,
        pub weights: Vec<TagWeight>,
    }
    #[derive(Encode, Decode, Clone)]
    pub struct WordWeightRecord {
        pub word: String,
        pub weights: Vec<i32>,
        pub comment: String,
    }
    #[derive(Encode, Decode, Clone)]
    pub struct TagModel {
        pub token: String,
        pub tags: Vec<Vec<String>>,
        pub char_ngram_model: Vec<TagNgramData<String>>,
        pub type_ngram_model: Vec<TagNgramData<Vec<u8>>>,
        pub bias: Vec<i32>,
    }
    #[derive(Encode, Decode, Clone)]
    pub struct ModelData {
        pub char_ngram_model: Vec<NgramData<String>>,
        pub type_ngram_model: Vec<NgramData<Vec<u8>>>,
        pub dict_model: Vec<WordWeightRecord>,
        pub bias: i32,
        pub char_window_size: u8,
        pub type_window_size: u8,
        pub tag_models: Vec<TagModel>,
    }
}

fn s(v: &Value) -> String {
    v.as_str().unwrap_or("").to_string()
}
fn i32s(v: &Value) -> Vec<i32> {
    v.as_array().map(|a| a.iter().map(|x| x.as_i64().unwrap_or(0) as i32).collect()).unwrap_or_default()
}
fn u8s(v: &Value) -> Vec<u8> {
    v.as_array().map(|a| a.iter().map(|x| x.as_u64().unwrap_or(0) as u8).collect()).unwrap_or_default()
}

fn tag_ngrams_str(v: &Value) -> Vec<mirror::TagNgramData<String>> {
    v.as_array()
        .map(|a| {
            a.iter()
                .map(|d| mirror::TagNgramData {
                    ngram: s(&d["ngram"]),
                    weights: d["weights"]
                        .as_array()
                        .map(|w| {
                            w.iter()
                                .map(|x| mirror::TagWeight {
                                    rel_position: x["rel_position"].as_u64().unwrap_or(0) as u8,
                                    weights: i32s(&x["weights"]),
                                })
                                .collect()
                        })
                        .unwrap_or_default(),
                })
                .collect()
        })
        .unwrap_or_default()
}
fn tag_ngrams_u8(v: &Value) -> Vec<mirror::TagNgramData<Vec<u8>>> {
    v.as_array()
        .map(|a| {
            a.iter()
                .map(|d| mirror::TagNgramData {
                    ngram: u8s(&d["ngram"]),
                    weights: d["weights"]
                        .as_array()
                        .map(|w| {
                            w.iter()
                                .map(|x| mirror::TagWeight {
                                    rel_position: x["rel_position"].as_u64().unwrap_or(0) as u8,
                                    weights: i32s(&x["weights"]),
                                })
                                .collect()
                        })
                        .unwrap_or_default(),
                })
                .collect()
        })
        .unwrap_or_default()
}

/// Build the serialised bytes of a model from its JSON description (mirror structs + magic).
fn model_bytes(d: &Value) -> Vec<u8> {
    let md = mirror::ModelData {
        char_ngram_model: d["char_ngrams"]
            .as_array()
            .map(|a| a.iter().map(|x| mirror::NgramData { ngram: s(&x["ngram"]), weights: i32s(&x["weights"]) }).collect())
            .unwrap_or_default(),
        type_ngram_model: d["type_ngrams"]
            .as_array()
            .map(|a| a.iter().map(|x| mirror::NgramData { ngram: u8s(&x["ngram"]), weights: i32s(&x["weights"]) }).collect())
            .unwrap_or_default(),
        dict_model: d["dict"]
            .as_array()
            .map(|a| {
                a.iter()
                    .map(|x| mirror::WordWeightRecord { word: s(&x["word"]), weights: i32s(&x["weights"]), comment: s(&x["comment"]) })
                    .collect()
            })
            .unwrap_or_default(),
        bias: d["bias"].as_i64().unwrap_or(0) as i32,
        char_window_size: d["char_window_size"].as_u64().unwrap_or(0) as u8,
        type_window_size: d["type_window_size"].as_u64().unwrap_or(0) as u8,
        tag_models: d["tag_models"]
            .as_array()
            .map(|a| {
                a.iter()
                    .map(|t| mirror::TagModel {
                        token: s(&t["token"]),
                        tags: t["tags"]
                            .as_array()
                            .map(|c| c.iter().map(|l| l.as_array().map(|z| z.iter().map(s).collect()).unwrap_or_default()).collect())
                            .unwrap_or_default(),
                        char_ngram_model: tag_ngrams_str(&t["char_ngrams"]),
                        type_ngram_model: tag_ngrams_u8(&t["type_ngrams"]),
                        bias: i32s(&t["bias"]),
                    })
                    .collect()
            })
            .unwrap_or_default(),
    };
    let mut out = MODEL_MAGIC.to_vec();
    out.extend(bincode::encode_to_vec(&md, bincode::config::standard()).unwrap());
    out
}

/// JSON view of a serialised model (decoded with the mirror structs)
fn model_to_json(bytes: &[u8]) -> Value {
    if bytes.len() < MODEL_MAGIC.len() {
        return json!({"err": "short"});
    }
    let r: Result<(mirror::ModelData, usize), _> = bincode::decode_from_slice(&bytes[MODEL_MAGIC.len()..], bincode::config::standard());
    match r {
        Err(e) => json!({"err": format!("{e}")}),
        Ok((md, _)) => json!({
            "char_ngrams": md.char_ngram_model.iter().map(|d| json!({"ngram": d.ngram, "weights": d.weights})).collect::<Vec<_>>(),
            "type_ngrams": md.type_ngram_model.iter().map(|d| json!({"ngram": d.ngram, "weights": d.weights})).collect::<Vec<_>>(),
            "dict": md.dict_model.iter().map(|d| json!({"word": d.word, "weights": d.weights, "comment": d.comment})).collect::<Vec<_>>(),
            "bias": md.bias, "char_window_size": md.char_window_size, "type_window_size": md.type_window_size,
            "tag_models": md.tag_models.iter().map(|t| json!({
                "token": t.token, "tags": t.tags, "bias": t.bias,
                "char_ngrams": t.char_ngram_model.iter().map(|d| json!({"ngram": d.ngram,
                    "weights": d.weights.iter().map(|w| json!({"rel_position": w.rel_position, "weights": w.weights})).collect::<Vec<_>>()})).collect::<Vec<_>>(),
                "type_ngrams": t.type_ngram_model.iter().map(|d| json!({"ngram": d.ngram,
                    "weights": d.weights.iter().map(|w| json!({"rel_position": w.rel_position, "weights": w.weights})).collect::<Vec<_>>()})).collect::<Vec<_>>(),
            })).collect::<Vec<_>>(),
        }),
    }
}

fn parse_corpus_sentence(v: &Value) -> Result<Sentence<'static, 'static>, String> {
    let text = s(&v["text"]);
    let r = match s(&v["kind"]).as_str() {
        "tokenized" => Sentence::from_tokenized(&text),
        "partial" => Sentence::from_partial_annotation(&text),
        _ => Sentence::from_raw(text),
    };
    let mut sent = r.map_err(|e| format!("{e}"))?;
    if let Some(bs) = v["labels"].as_array() {
        for (d, x) in sent.boundaries_mut().iter_mut().zip(bs) {
            *d = u2b(x.as_u64().unwrap_or(2));
        }
    }
    Ok(sent)
}

fn b2u(b: &CharacterBoundary) -> u8 {
    match b {
        CharacterBoundary::NotWordBoundary => 0,
        CharacterBoundary::WordBoundary => 1,
        CharacterBoundary::Unknown => 2,
    }
}
fn u2b(u: u64) -> CharacterBoundary {
    match u {
        0 => CharacterBoundary::NotWordBoundary,
        1 => CharacterBoundary::WordBoundary,
        _ => CharacterBoundary::Unknown,
    }
}

fn guard<F: FnOnce() -> Value>(f: F) -> Value {
    match catch_unwind(AssertUnwindSafe(f)) {
        Ok(v) => v,
        Err(e) => {
            let msg = if let Some(s) = e.downcast_ref::<&str>() {
                s.to_string()
            } else if let Some(s) = e.downcast_ref::<String>() {
                s.clone()
            } else {
                "?".to_string()
            };
            json!({ "panic": msg })
        }
    }
}

fn observe(sent: &Sentence<'static, 'static>, want_cands: bool) -> Value {
    let mut o = serde_json::Map::new();
    o.insert("raw".into(), guard(|| json!(sent.as_raw_text())));
    o.insert("char_types".into(), guard(|| json!(sent.char_types())));
    o.insert("boundaries".into(), guard(|| json!(sent.boundaries().iter().map(b2u).collect::<Vec<_>>())));
    o.insert("scores".into(), guard(|| json!(sent.boundary_scores())));
    o.insert("n_tags".into(), guard(|| json!(sent.n_tags())));
    o.insert(
        "tags".into(),
        guard(|| json!(sent.tags().iter().map(|t| t.as_ref().map(|x| x.to_string())).collect::<Vec<_>>())),
    );
    o.insert(
        "tokens".into(),
        guard(|| {
            let mut v = vec![];
            for t in sent.iter_tokens() {
                v.push(json!({"start": t.start(), "end": t.end(), "surface": t.surface(),
                    "tags": t.tags().iter().map(|x| x.as_ref().map(|y| y.to_string())).collect::<Vec<_>>()}));
                if v.len() > 10000 {
                    break;
                }
            }
            json!(v)
        }),
    );
    o.insert(
        "tokenized".into(),
        guard(|| {
            let mut buf = String::from("stale");
            sent.write_tokenized_text(&mut buf);
            json!(buf)
        }),
    );
    o.insert(
        "partial".into(),
        guard(|| {
            let mut buf = String::from("stale");
            sent.write_partial_annotation_text(&mut buf);
            json!(buf)
        }),
    );
    if want_cands {
        o.insert(
            "tag_candidates".into(),
            guard(|| {
                let mut v = vec![];
                for t in sent.iter_tokens() {
                    let c = t.tag_candidates();
                    v.push(json!(c.iter().map(|l| l.iter().map(|(n, sc)| json!([n, sc])).collect::<Vec<_>>()).collect::<Vec<_>>()));
                }
                json!(v)
            }),
        );
    }
    Value::Object(o)
}

fn char_type(c: &str) -> CharacterType {
    match c {
        "D" => CharacterType::Digit,
        "R" => CharacterType::Roman,
        "H" => CharacterType::Hiragana,
        "T" => CharacterType::Katakana,
        "K" => CharacterType::Kanji,
        _ => CharacterType::Other,
    }
}

fn main() {
    std::panic::set_hook(Box::new(|_| {}));
    let mut inp = String::new();
    std::io::stdin().read_to_string(&mut inp).unwrap();
    let scen: Value = serde_json::from_str(&inp).expect("scenario json");
    let mut models: StdHashMap<String, Vec<u8>> = StdHashMap::new();
    let mut predictors: StdHashMap<String, &'static Predictor> = StdHashMap::new();
    let mut sents: StdHashMap<String, Sentence<'static, 'static>> = StdHashMap::new();
    let mut out = vec![];
    for op in scen["ops"].as_array().cloned().unwrap_or_default() {
        let name = s(&op["op"]);
        let r: Value = match name.as_str() {
            "model" => {
                models.insert(s(&op["id"]), model_bytes(&op["data"]));
                json!({"ok": true})
            }
            "train" => guard(|| {
                // real trainer with the real liblinear: {cfg:[cw,cn,tw,tn], dict:[..], max_len, corpus:[{kind,text,labels?}], tag_dict:[..], solver, id}
                let cfg = u8s(&op["cfg"]);
                let dict: Vec<String> = op["dict"].as_array().map(|a| a.iter().map(s).collect()).unwrap_or_default();
                let mut corpus = vec![];
                for c in op["corpus"].as_array().cloned().unwrap_or_default() {
                    match parse_corpus_sentence(&c) {
                        Ok(x) => corpus.push(x),
                        Err(e) => return json!({"err": format!("corpus: {e}")}),
                    }
                }
                let mut tagdict = vec![];
                for c in op["tag_dict"].as_array().cloned().unwrap_or_default() {
                    match parse_corpus_sentence(&c) {
                        Ok(x) => tagdict.push(x),
                        Err(e) => return json!({"err": format!("tag_dict: {e}")}),
                    }
                }
                let corpus: &'static [Sentence<'static, 'static>] = Box::leak(corpus.into_boxed_slice());
                let tagdict: &'static [Sentence<'static, 'static>] = Box::leak(tagdict.into_boxed_slice());
                let solver: SolverType = s(&op["solver"]).parse().unwrap_or(SolverType::L2RegularizedL2LossSVCDual);
                let mut trainer = match Trainer::new(cfg[0], cfg[1], cfg[2], cfg[3], dict, op["max_len"].as_u64().unwrap_or(4) as u8, tagdict) {
                    Ok(t) => t,
                    Err(e) => return json!({"err": format!("new: {e}")}),
                };
                for sent in corpus {
                    trainer.add_example(sent);
                }
                let nfeat = trainer.n_features();
                // a panic inside train() must not hide the (already known) feature count: C10's native confirmation reads it
                let trained = match catch_unwind(AssertUnwindSafe(move || trainer.train(0.01, 1.0, solver))) {
                    Ok(r) => r,
                    Err(e) => {
                        let msg = e.downcast_ref::<&str>().map(|s| s.to_string()).or_else(|| e.downcast_ref::<String>().cloned()).unwrap_or_else(|| "?".to_string());
                        return json!({"panic": msg, "n_features": nfeat});
                    }
                };
                match trained {
                    Ok(m) => {
                        let bytes = m.to_vec().unwrap();
                        let j = model_to_json(&bytes);
                        models.insert(s(&op["id"]), bytes);
                        json!({"ok": true, "n_features": nfeat, "model": j})
                    }
                    Err(e) => json!({"err": format!("train: {e}"), "n_features": nfeat}),
                }
            }),
            "kytea_convert" => guard(|| {
                let bytes = u8s(&op["bytes"]);
                let km = match KyteaModel::read(&mut &bytes[..]) {
                    Ok(m) => m,
                    Err(e) => return json!({"err": format!("read: {e}")}),
                };
                match Model::try_from(km) {
                    Ok(m) => {
                        let b = m.to_vec().unwrap();
                        let j = model_to_json(&b);
                        models.insert(s(&op["id"]), b);
                        json!({"ok": true, "model": j})
                    }
                    Err(e) => json!({"err": format!("convert: {e}")}),
                }
            }),
            "kytea_prefix_scan" => guard(|| {
                let bytes = u8s(&op["bytes"]);
                let mut bad = vec![];
                for cut in 0..bytes.len() {
                    let pre = &bytes[..cut];
                    match catch_unwind(AssertUnwindSafe(|| KyteaModel::read(&mut &pre[..]).is_ok())) {
                        Ok(false) => {}
                        Ok(true) => bad.push(json!([cut, "read accepted a truncated file"])),
                        Err(_) => bad.push(json!([cut, "read panicked"])),
                    }
                }
                bad.truncate(20);
                json!({"len": bytes.len(), "bad": bad})
            }),
            "model_json" => guard(|| model_to_json(&models.get(&s(&op["model"])).cloned().unwrap_or_default())),
            "model_dump" => json!({"ok": true, "bytes": models.get(&s(&op["model"])).cloned().unwrap_or_default()}),
            "model_bytes" => {
                models.insert(s(&op["id"]), u8s(&op["bytes"]));
                json!({"ok": true})
            }
            "predictor" => guard(|| {
                let bytes = models.get(&s(&op["model"])).cloned().unwrap_or_default();
                let model = match Model::read(&mut bytes.as_slice()) {
                    Ok(m) => m,
                    Err(e) => return json!({"err": format!("read: {e}")}),
                };
                match Predictor::new(model, op["tags"].as_bool().unwrap_or(false)) {
                    Ok(mut p) => {
                        if op["store_scores"].as_bool().unwrap_or(false) {
                            p.store_tag_scores(true);
                        }
                        let via = op["via_serialize"].as_bool().unwrap_or(false);
                        if via {
                            let data = p.serialize_to_vec().unwrap();
                            let mut data2 = data.clone();
                            data2.extend(u8s(&op["trailing"]));
                            let leaked: &'static [u8] = Box::leak(data2.into_boxed_slice());
                            let (mut p2, rest) = unsafe { Predictor::deserialize_from_slice_unchecked(leaked).unwrap() };
                            if op["store_scores"].as_bool().unwrap_or(false) {
                                p2.store_tag_scores(true);
                            }
                            predictors.insert(s(&op["id"]), Box::leak(Box::new(p2)));
                            return json!({"ok": true, "rest": rest, "len": data.len()});
                        }
                        predictors.insert(s(&op["id"]), Box::leak(Box::new(p)));
                        json!({"ok": true})
                    }
                    Err(e) => json!({"err": format!("{e}")}),
                }
            }),
            "sentence" | "update" => guard(|| {
                let text = s(&op["text"]);
                let kind = s(&op["kind"]);
                let id = s(&op["id"]);
                if name == "sentence" {
                    let r = match kind.as_str() {
                        "raw" => Sentence::from_raw(text),
                        "tokenized" => Sentence::from_tokenized(&text),
                        "partial" => Sentence::from_partial_annotation(&text),
                        _ => Ok(Sentence::default()),
                    };
                    match r {
                        Ok(x) => {
                            sents.insert(id, x);
                            json!({"ok": true})
                        }
                        Err(e) => json!({"err": format!("{e}")}),
                    }
                } else {
                    let sent = sents.get_mut(&id).expect("sentence id");
                    let r = match kind.as_str() {
                        "raw" => sent.update_raw(text),
                        "tokenized" => sent.update_tokenized(&text),
                        _ => sent.update_partial_annotation(&text),
                    };
                    match r {
                        Ok(()) => json!({"ok": true}),
                        Err(e) => json!({"err": format!("{e}")}),
                    }
                }
            }),
            "predict" => guard(|| {
                let p = *predictors.get(&s(&op["p"])).expect("predictor id");
                let sent = sents.get_mut(&s(&op["s"])).expect("sentence id");
                p.predict(sent);
                json!({"ok": true})
            }),
            "fill_tags" => guard(|| {
                sents.get_mut(&s(&op["s"])).expect("sentence id").fill_tags();
                json!({"ok": true})
            }),
            "reset_tags" => guard(|| {
                sents.get_mut(&s(&op["s"])).expect("sentence id").reset_tags(op["n"].as_u64().unwrap_or(0) as usize);
                json!({"ok": true})
            }),
            "set_boundaries" => guard(|| {
                let sent = sents.get_mut(&s(&op["s"])).expect("sentence id");
                let bs = op["b"].as_array().cloned().unwrap_or_default();
                let dst = sent.boundaries_mut();
                if dst.len() != bs.len() {
                    return json!({"err": "length"});
                }
                for (d, v) in dst.iter_mut().zip(bs) {
                    *d = u2b(v.as_u64().unwrap_or(2));
                }
                json!({"ok": true})
            }),
            "set_tags" => guard(|| {
                let sent = sents.get_mut(&s(&op["s"])).expect("sentence id");
                let ts = op["tags"].as_array().cloned().unwrap_or_default();
                let dst = sent.tags_mut();
                if dst.len() != ts.len() {
                    return json!({"err": "length"});
                }
                for (d, v) in dst.iter_mut().zip(ts) {
                    *d = v.as_str().map(|x| std::borrow::Cow::Owned(x.to_string()));
                }
                json!({"ok": true})
            }),
            "filter" => guard(|| {
                let sent = sents.get_mut(&s(&op["s"])).expect("sentence id");
                match s(&op["kind"]).as_str() {
                    "wsconst" => KyteaWsConstFilter::new(char_type(&s(&op["arg"]))).filter(sent),
                    "linebreaks" => SplitLinebreaksFilter.filter(sent),
                    "graphemes" => ConcatGraphemeClustersFilter.filter(sent),
                    "tagger" => {
                        let mut rules = hashbrown::HashMap::new();
                        for (k, v) in op["rules"].as_object().cloned().unwrap_or_default() {
                            rules.insert(k, v.as_array().map(|a| a.iter().map(|x| x.as_str().map(|y| y.to_string())).collect()).unwrap_or_default());
                        }
                        PatternMatchTagger::new(rules).filter(sent)
                    }
                    _ => {}
                }
                json!({"ok": true})
            }),
            "reparse" => guard(|| {
                // write sentence `from` in the given format and parse the text into sentence `to`
                let fmt = s(&op["fmt"]);
                let mut buf = String::new();
                {
                    let src = sents.get(&s(&op["from"])).expect("sentence id");
                    if fmt == "tokenized" {
                        src.write_tokenized_text(&mut buf);
                    } else {
                        src.write_partial_annotation_text(&mut buf);
                    }
                }
                if op["update"].as_bool().unwrap_or(false) {
                    // parse into the EXISTING sentence `to` (update_* on a reused object)
                    let dst = sents.get_mut(&s(&op["to"])).expect("sentence id");
                    let r = if fmt == "tokenized" { dst.update_tokenized(&buf) } else { dst.update_partial_annotation(&buf) };
                    return match r {
                        Ok(()) => json!({"ok": true, "text": buf}),
                        Err(e) => json!({"err": format!("{e}"), "text": buf}),
                    };
                }
                let r = if fmt == "tokenized" { Sentence::from_tokenized(&buf) } else { Sentence::from_partial_annotation(&buf) };
                match r {
                    Ok(x) => {
                        sents.insert(s(&op["to"]), x);
                        json!({"ok": true, "text": buf})
                    }
                    Err(e) => json!({"err": format!("{e}"), "text": buf}),
                }
            }),
            "graphemes" => guard(|| {
                use unicode_segmentation::UnicodeSegmentation;
                let t = s(&op["text"]);
                json!({"ok": true, "clusters": t.graphemes(true).map(|g| g.chars().count()).collect::<Vec<_>>()})
            }),
            "fullwidth" => guard(|| json!({"ok": true, "out": KyteaFullwidthFilter.filter(s(&op["text"]))})),
            "zstd_decode" => guard(|| {
                let data = u8s(&op["bytes"]);
                let mut src = data.as_slice();
                let mut dec = match ruzstd::decoding::StreamingDecoder::new(&mut src) {
                    Ok(d) => d,
                    Err(e) => return json!({"err": format!("{e}")}),
                };
                let mut out = vec![];
                match dec.read_to_end(&mut out) {
                    Ok(_) => json!({"ok": true, "bytes": out}),
                    Err(e) => json!({"err": format!("{e}")}),
                }
            }),
            "csv_roundtrip" => guard(|| {
                // the real csv crate: write records (3 string columns, serde) with the default writer; read `text` (or what was written) back with
                // the reader options given -> validates the contract model of mirsym/models/m_csv.py
                #[derive(serde::Serialize, serde::Deserialize)]
                struct Rec {
                    word: String,
                    weights: String,
                    comment: String,
                }
                let mut written = vec![];
                if let Some(recs) = op["records"].as_array() {
                    let mut w = csv::Writer::from_writer(&mut written);
                    for r in recs {
                        let a = r.as_array().cloned().unwrap_or_default();
                        let f = |i: usize| a.get(i).and_then(|x| x.as_str()).unwrap_or("").to_string();
                        if let Err(e) = w.serialize(Rec { word: f(0), weights: f(1), comment: f(2) }) {
                            return json!({"err": format!("write: {e}")});
                        }
                    }
                    w.flush().unwrap();
                }
                let input: Vec<u8> = if op["input"].is_array() { u8s(&op["input"]) } else { written.clone() };
                let mut b = csv::ReaderBuilder::new();
                if let Some(c) = op["comment"].as_u64() {
                    b.comment(Some(c as u8));
                }
                let mut rdr = b.from_reader(input.as_slice());
                let mut out = vec![];
                let mut error = Value::Null;
                for r in rdr.deserialize::<Rec>() {
                    match r {
                        Ok(x) => out.push(json!([x.word, x.weights, x.comment])),
                        Err(e) => {
                            error = json!(format!("{e}"));
                            break;
                        }
                    }
                }
                json!({"ok": true, "written": written, "records": out, "error": error})
            }),
            "observe" => guard(|| observe(sents.get(&s(&op["s"])).expect("sentence id"), op["cands"].as_bool().unwrap_or(false))),
            "model_roundtrip" => guard(|| {
                // to_vec / read / read_slice on the described model + trailing bytes
                let bytes = models.get(&s(&op["model"])).cloned().unwrap_or_default();
                let mut with_trailing = bytes.clone();
                with_trailing.extend(u8s(&op["trailing"]));
                let r1 = Model::read(&mut bytes.as_slice());
                let r2 = Model::read_slice(&with_trailing);
                let mut o = serde_json::Map::new();
                match r1 {
                    Ok(m) => {
                        o.insert("read_ok".into(), json!(true));
                        o.insert("to_vec_equal".into(), json!(m.to_vec().map(|v| v == bytes).unwrap_or(false)));
                        let mut w = vec![];
                        o.insert("write_equal".into(), json!(m.write(&mut w).is_ok() && w == bytes));
                    }
                    Err(e) => {
                        o.insert("read_ok".into(), json!(false));
                        o.insert("read_err".into(), json!(format!("{e}")));
                    }
                }
                match r2 {
                    Ok((m, rest)) => {
                        o.insert("slice_ok".into(), json!(true));
                        o.insert("rest".into(), json!(rest));
                        o.insert("slice_to_vec_equal".into(), json!(m.to_vec().map(|v| v == bytes).unwrap_or(false)));
                    }
                    Err(e) => {
                        o.insert("slice_ok".into(), json!(false));
                        o.insert("slice_err".into(), json!(format!("{e}")));
                    }
                }
                Value::Object(o)
            }),
            "model_read_prefix" => guard(|| {
                let bytes = models.get(&s(&op["model"])).cloned().unwrap_or_default();
                let cut = (op["cut"].as_u64().unwrap_or(0) as usize).min(bytes.len());
                let pre = &bytes[..cut];
                let a = guard(|| json!(Model::read(&mut &pre[..]).is_ok()));
                let b = guard(|| json!(Model::read_slice(pre).is_ok()));
                json!({"read": a, "read_slice": b, "len": bytes.len()})
            }),
            "model_read_chunked" => guard(|| {
                // a reader that delivers at most `chunk` bytes per read() call: a valid model must still be read
                struct Chunked<'a> { data: &'a [u8], pos: usize, chunk: usize }
                impl<'a> std::io::Read for Chunked<'a> {
                    fn read(&mut self, buf: &mut [u8]) -> std::io::Result<usize> {
                        let n = buf.len().min(self.chunk).min(self.data.len() - self.pos);
                        buf[..n].copy_from_slice(&self.data[self.pos..self.pos + n]);
                        self.pos += n;
                        Ok(n)
                    }
                }
                let bytes = models.get(&s(&op["model"])).cloned().unwrap_or_default();
                let mut bad = vec![];
                for chunk in [1usize, 2, 3, 7, 16, 24, 25, 64] {
                    match catch_unwind(AssertUnwindSafe(|| Model::read(Chunked { data: &bytes, pos: 0, chunk }).map(|m| m.to_vec().map(|v| v == bytes).unwrap_or(false)))) {
                        Ok(Ok(true)) => {}
                        Ok(Ok(false)) => bad.push(json!([chunk, "model read through a short-reading reader differs"])),
                        Ok(Err(e)) => bad.push(json!([chunk, format!("valid model rejected through a short-reading reader: {e}")])),
                        Err(_) => bad.push(json!([chunk, "read panicked"])),
                    }
                }
                json!({"bad": bad})
            }),
            "model_prefix_scan" => guard(|| {
                // every proper byte prefix of the serialised model must be rejected by read and read_slice, without panicking
                let bytes = models.get(&s(&op["model"])).cloned().unwrap_or_default();
                let mut bad = vec![];
                for cut in 0..bytes.len() {
                    let pre = &bytes[..cut];
                    match catch_unwind(AssertUnwindSafe(|| Model::read(&mut &pre[..]).is_ok())) {
                        Ok(false) => {}
                        Ok(true) => bad.push(json!([cut, "read accepted a proper prefix"])),
                        Err(_) => bad.push(json!([cut, "read panicked"])),
                    }
                    match catch_unwind(AssertUnwindSafe(|| Model::read_slice(pre).is_ok())) {
                        Ok(false) => {}
                        Ok(true) => bad.push(json!([cut, "read_slice accepted a proper prefix"])),
                        Err(_) => bad.push(json!([cut, "read_slice panicked"])),
                    }
                }
                bad.truncate(20);
                json!({"len": bytes.len(), "bad": bad})
            }),
            "model_header" => guard(|| {
                let mut bytes = models.get(&s(&op["model"])).cloned().unwrap_or_default();
                let hdr = u8s(&op["header"]);
                let differs = hdr[..] != bytes[..hdr.len().min(bytes.len())];
                for (d, h) in bytes.iter_mut().zip(hdr.iter()) {
                    *d = *h;
                }
                let a = guard(|| json!(Model::read(&mut &bytes[..]).is_ok()));
                let b = guard(|| json!(Model::read_slice(&bytes).is_ok()));
                json!({"differs": differs, "read": a, "read_slice": b})
            }),
            "model_faults" => guard(|| {
                // a reader that fails after n bytes / a writer that fails after n bytes, for every n
                struct FailingReader<'a> { data: &'a [u8], pos: usize, limit: usize }
                impl<'a> std::io::Read for FailingReader<'a> {
                    fn read(&mut self, buf: &mut [u8]) -> std::io::Result<usize> {
                        if self.pos >= self.limit {
                            return Err(std::io::Error::new(std::io::ErrorKind::Other, "injected"));
                        }
                        let n = buf.len().min(self.limit - self.pos).min(self.data.len() - self.pos);
                        buf[..n].copy_from_slice(&self.data[self.pos..self.pos + n]);
                        self.pos += n;
                        Ok(n)
                    }
                }
                struct FailingWriter { written: usize, limit: usize }
                impl std::io::Write for FailingWriter {
                    fn write(&mut self, buf: &[u8]) -> std::io::Result<usize> {
                        if self.written >= self.limit {
                            return Err(std::io::Error::new(std::io::ErrorKind::Other, "injected"));
                        }
                        let n = buf.len().min(self.limit - self.written);
                        self.written += n;
                        Ok(n)
                    }
                    fn flush(&mut self) -> std::io::Result<()> { Ok(()) }
                }
                let bytes = models.get(&s(&op["model"])).cloned().unwrap_or_default();
                let model = Model::read(&mut &bytes[..]).expect("model");
                let mut bad = vec![];
                for limit in 0..bytes.len() {
                    match catch_unwind(AssertUnwindSafe(|| Model::read(FailingReader { data: &bytes, pos: 0, limit }).is_ok())) {
                        Ok(false) => {}
                        Ok(true) => bad.push(json!([limit, "read succeeded although the reader failed"])),
                        Err(_) => bad.push(json!([limit, "read panicked"])),
                    }
                    match catch_unwind(AssertUnwindSafe(|| model.write(FailingWriter { written: 0, limit }).is_ok())) {
                        Ok(false) => {}
                        Ok(true) => bad.push(json!([limit, "write succeeded although the writer failed"])),
                        Err(_) => bad.push(json!([limit, "write panicked"])),
                    }
                }
                bad.truncate(20);
                json!({"len": bytes.len(), "bad": bad})
            }),
            "model_read_raw" => guard(|| {
                let bytes = u8s(&op["bytes"]);
                let a = guard(|| json!(Model::read(&mut &bytes[..]).is_ok()));
                let b = guard(|| json!(Model::read_slice(&bytes).is_ok()));
                json!({"read": a, "read_slice": b})
            }),
            "word_weight_record" => guard(|| match WordWeightRecord::new(s(&op["word"]), i32s(&op["weights"]), s(&op["comment"])) {
                Ok(_) => json!({"ok": true}),
                Err(e) => json!({"err": format!("{e}")}),
            }),
            _ => json!({"err": format!("unknown op {name}")}),
        };
        out.push(r);
    }
    // liblinear prints its training log to stdout: mark where the result starts
    println!("\n@@RESULT@@{}", serde_json::to_string(&Value::Array(out)).unwrap());
}
