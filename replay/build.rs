// Reads the model magic from the *current* /repo source so that replayed models always carry the
// header the tree under test expects.
use std::fs;
fn main() {
    let src = fs::read_to_string("/repo/vaporetto/src/model.rs").expect("model.rs");
    let mut magic = String::from("VaporettoTokenizer 0.5.0\\n");
    for line in src.lines() {
        if let Some(p) = line.find("MODEL_MAGIC: &[u8] = b\"") {
            let rest = &line[p + "MODEL_MAGIC: &[u8] = b\"".len()..];
            if let Some(e) = rest.rfind("\";") {
                magic = rest[..e].to_string();
            }
        }
    }
    let out = std::env::var("OUT_DIR").unwrap();
    fs::write(format!("{out}/magic.rs"), format!("pub const MODEL_MAGIC: &[u8] = b\"{magic}\";\n")).unwrap();
    println!("cargo:rerun-if-changed=/repo/vaporetto/src/model.rs");
}
